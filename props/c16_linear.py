"""C16 - Omega test, simplex, branch-and-bound: verdicts, witnesses, proofs.

Case (JSON):
  {"ep": <entry point>, "nv": n, "rows": [[[a_0, .., a_{n-1}], op, b], ...], "enc": {...}}

A row means   a_0*x_0 + ... + a_{n-1}*x_{n-1}  op  b   with op in >=, <=, >, < (ints).
Entry points (`ep`) and what they receive:

  omega_matrix   omega.solve_matrix([[a.., -b], ..])                 (ops: >= only; integers)
  omega_hol      omega.OmegaHOL([terms]).solve()                     (all ops; integers; enc.style, enc.names)
  simplex        simplex.Simplex().add_ineqs(..); handle_assertion() (>=, <=; rationals; enc.zeros)
  strict         simplex_strict.Simplex() with Pair bounds            (all ops; rationals; enc.zeros)
  bb             simplex.branch_and_bound(Simplex, [], [])           (>=, <=; integers; enc.zeros)
  simplex_hol    simplex.SimplexHOLWrapper                           (>=, <=; rationals; proof)
  simplex_macro  simplex.SimplexMacro().get_proof_term(args=terms)   (>=, <=; rationals; proof; enc.one, enc.names)
  strict_macro   simplex_strict.StrictSimplexMacro()                 (all ops; rationals; proof)
  int_macro      simplex.IntegerSimplexMacro()                       (>=, <=; integers; proof)
"""
import collections
import contextlib
import io
import itertools
import signal
from fractions import Fraction
from math import gcd

from vlib import harness
from vlib.harness import Timeout, CaseInvalid, SelfTestError

ID = 'C16'
RULE = ("Systems of <=5 variables and <=8 rows  a.x op b  (op in >=,<=,>,<; coefficients -4..4, constants -8..8 in the "
        "random shapes; Farkas-planted and thin-slab shapes may reach |coefficient| <= ~40) drawn by Hypothesis from the "
        "shapes rand / sparse (bound rows) / planted-sat / farkas (a non-negative combination of the other rows negated, "
        "margin -1,0,+1: just satisfiable or just contradictory) / slab (b <= a.x <= b+w with non-unit coefficients: "
        "dark-shadow and gcd cases), then mutated with duplicate rows, zero rows and equalities as paired inequalities. "
        "Each system goes to one entry point (solve_matrix raw, OmegaHOL via terms, Simplex, strict Simplex, "
        "branch_and_bound, SimplexHOLWrapper, simplex_macro, strict_simplex_macro, integer_simplex). Oracle: a 'satisfiable' "
        "answer is checked by exact substitution of the returned assignment (integrality where required; delta-pairs "
        "lexicographically); a 'contradiction/unsatisfiable' answer is refuted only by a concrete model from Z3 (own "
        "LIA/LRA encoding of the rows) that validates by substitution, with a brute-force box as second witness source "
        "for <=3 variables; a returned proof must pass theory.check_proof, conclude false, and every hypothesis must "
        "read back (own linear-term reader) as one of the given rows. NOCONCL, exceptions, node-budget and (CPU-time) "
        "timer hits are inconclusive. Signatures are component:failure-class:input-feature; a feature (non-unit "
        "single-variable row, shared left-hand side, zero-coefficient jar, zero row, x_k variable names) is assigned only "
        "when the failure disappears on an equivalent input without it, and then verdict, witness and proof failures "
        "caused by it are filed together as 'wrong-result'. Non-trivial: >=2 rows, >=2 variables with a non-zero coefficient, and a definite verdict; "
        "distinct by canonical JSON.")
ASSUMPTIONS = [
    "raw matrices are in the domain of omega.solve_matrix (observe_at names it; OmegaHOL passes omega_form_conv output "
    "to it unnormalised, so rows with a non-unit coefficient on a single variable reach it from terms as well)",
    "branch_and_bound has a bare `except:` and no bound on the tree: simplex.deque is replaced at run time by a "
    "counting subclass so that exploration stops deterministically after a node budget (inconclusive); nothing "
    "under /repo is modified",
    "an exception from the code under test is 'no answer' (allowed); for branch_and_bound the procedure itself turns "
    "every exception inside a node into 'this node is infeasible', so a wrong 'no integer solution' produced that "
    "way is a wrong verdict of branch_and_bound",
    "hypotheses of a returned proof are compared semantically (same coefficients, relation and bound, no scaling; "
    "`1 * x` = `x`; for integers  t > b  =  t >= b+1), not syntactically",
    "PYTHONHASHSEED=0 pins the iteration order of the sets of variable names inside Simplex",
    "StrictSimplexMacro is given at least one strict comparison (its only caller, prover/proofrec.py, guarantees it; "
    "without one it returns the wrapper's proof over the internal names x_0, x_1, ..)",
    "the 'satisfiable' result of the two real macros is a dict over internal fresh names x_<k>; it is read as the "
    "k-th variable in order of first occurrence in the given terms",
    "time limits count CPU time of the worker (ITIMER_PROF), not wall-clock time",
]
SHRINK_SECONDS = 20
SHRINK_BUDGET = 150

ALL_OPS = ('>=', '<=', '>', '<')
NS_OPS = ('>=', '<=')
EP_OPS = {
    'omega_matrix': ('>=',), 'omega_hol': ALL_OPS,
    'simplex': NS_OPS, 'strict': ALL_OPS, 'bb': NS_OPS,
    'simplex_hol': NS_OPS, 'simplex_macro': NS_OPS, 'strict_macro': ALL_OPS, 'int_macro': NS_OPS,
}
EP_INT = {'omega_matrix', 'omega_hol', 'bb', 'int_macro'}
EPS = list(EP_OPS)
NAME_SCHEMES = {
    'letters': ['x', 'y', 'z', 'u', 'v', 'w'],
    'x1': ['x_1', 'x_2', 'x_3', 'x_4', 'x_5', 'x_6'],
    'x0': ['x_0', 'x_1', 'x_2', 'x_3', 'x_4', 'x_5'],
    'xrev': ['x_5', 'x_4', 'x_3', 'x_2', 'x_1', 'x_0'],
}
BB_NODE_BUDGET = 300

omega = simplex = simplex_strict = None
_thy = {}


_timeouts = [0]
MAX_TIMEOUTS = 25


def count_timeout():
    _timeouts[0] += 1


@contextlib.contextmanager
def time_limit(seconds):
    """Like harness.time_limit, but (1) it counts CPU time of this process (ITIMER_PROF), so that a loaded machine
    does not turn slow cases into timeouts and runs stay reproducible, and (2) the alarm repeats every 0.25 s until
    the block is left: a single Timeout can be lost when it is raised inside a garbage-collector callback
    ("Exception ignored in ..."), and the code under test would then run on without any limit."""
    def handler(signum, frame):
        raise Timeout()
    if _timeouts[0] >= 3:
        # something makes the code under test diverge again and again (a mutant): do not spend the full limit each time
        seconds = min(seconds, 2)
    old = signal.signal(signal.SIGPROF, handler)
    signal.setitimer(signal.ITIMER_PROF, seconds, 0.25)
    try:
        yield
    finally:
        while True:
            try:
                signal.setitimer(signal.ITIMER_PROF, 0)
                break
            except Timeout:
                continue
        signal.signal(signal.SIGPROF, old)


# ---------------------------------------------------------------- exact evaluation (oracle side)
def row_value(a, x):
    return sum((Fraction(c) * Fraction(v) for c, v in zip(a, x)), Fraction(0))


def cmp_op(lhs, op, rhs):
    if op == '>=':
        return lhs >= rhs
    if op == '<=':
        return lhs <= rhs
    if op == '>':
        return lhs > rhs
    if op == '<':
        return lhs < rhs
    raise CaseInvalid('op %r' % (op,))


def first_bad_row(rows, x):
    """Index of the first row that the point x (list of Fraction) violates, or None."""
    for i, (a, op, b) in enumerate(rows):
        if not cmp_op(row_value(a, x), op, Fraction(b)):
            return i
    return None


def bad_rows_of(rows, vals):
    """Indices of all rows violated by vals (Fractions, or (p, q) delta-pairs)."""
    out = []
    for i, (a, op, b) in enumerate(rows):
        if vals and isinstance(vals[0], tuple):
            lhs = (row_value(a, [v[0] for v in vals]), row_value(a, [v[1] for v in vals]))
            ok = cmp_op(lhs, op, (Fraction(b), Fraction(0)))
        else:
            ok = cmp_op(row_value(a, vals), op, Fraction(b))
        if not ok:
            out.append(i)
    return out


def first_bad_row_pairs(rows, xp):
    """xp: list of (p, q) meaning p + q*delta for every sufficiently small delta > 0."""
    for i, (a, op, b) in enumerate(rows):
        p = row_value(a, [v[0] for v in xp])
        q = row_value(a, [v[1] for v in xp])
        if not cmp_op((p, q), op, (Fraction(b), Fraction(0))):
            return i
    return None


def z3_truth(nv, rows, is_int):
    """('sat', [Fraction..]) with a model validated by substitution, ('unsat', None) or ('unknown', None)."""
    import z3
    xs = [z3.Int('x%d' % i) if is_int else z3.Real('x%d' % i) for i in range(nv)]
    s = z3.Solver()      # no z3 timeout: it costs a timer thread (futex / sched_yield storm) per check()
    for a, op, b in rows:
        lhs = z3.Sum([z3.IntVal(c) * x for c, x in zip(a, xs)]) if is_int else \
            z3.Sum([z3.RealVal(c) * x for c, x in zip(a, xs)])
        if op == '>=':
            s.add(lhs >= b)
        elif op == '<=':
            s.add(lhs <= b)
        elif op == '>':
            s.add(lhs > b)
        else:
            s.add(lhs < b)
    r = s.check()
    if r == z3.unsat:
        return 'unsat', None
    if r != z3.sat:
        return 'unknown', None
    m = s.model()
    pt = []
    for x in xs:
        v = m.eval(x, model_completion=True)
        if is_int:
            pt.append(Fraction(v.as_long()))
        else:
            pt.append(Fraction(v.numerator_as_long(), v.denominator_as_long()))
    if first_bad_row(rows, pt) is not None:
        return 'unknown', None
    return 'sat', pt


def brute_int(nv, rows, box):
    """First integer point of [-box, box]^nv satisfying all rows, or None."""
    ir = [([int(c) for c in a], op, int(b)) for a, op, b in rows]
    for pt in itertools.product(range(-box, box + 1), repeat=nv):
        ok = True
        for a, op, b in ir:
            s = 0
            for c, v in zip(a, pt):
                s += c * v
            if op == '>=':
                good = s >= b
            elif op == '<=':
                good = s <= b
            elif op == '>':
                good = s > b
            else:
                good = s < b
            if not good:
                ok = False
                break
        if ok:
            return [Fraction(v) for v in pt]
    return None


# ---------------------------------------------------------------- structure of a system (classes, signature features)
def tighten_row(a, op, b):
    """Integer-equivalent row with the gcd of the coefficients divided out (own arithmetic, not the repo's)."""
    g = 0
    for c in a:
        g = gcd(g, abs(c))
    if g <= 1:
        return [list(a), op, b]
    if op == '>':
        op, b = '>=', b + 1
    elif op == '<':
        op, b = '<=', b - 1
    if op == '>=':
        return [[c // g for c in a], op, -((-b) // g)]     # ceil(b / g)
    return [[c // g for c in a], op, b // g]               # floor(b / g)


def nonunit_1var(rows):
    return any(sum(1 for c in a if c != 0) == 1 and max(abs(c) for c in a) > 1 for a, _, _ in rows)


def structure(nv, rows):
    """Structural classes of a system (each row read as  a.x >= b  after sign normalisation)."""
    norm = []
    for a, op, b in rows:
        if op in ('>=', '>'):
            norm.append((tuple(a), -b))
        else:
            norm.append((tuple(-c for c in a), b))
    out = []
    if any(all(c == 0 for c in a) for a, _ in norm):
        out.append('zero-row')
    if len(set((tuple(a), op, b) for a, op, b in rows)) < len(rows):
        out.append('dup-row')
    keys = set(norm)
    if any(any(a) and (tuple(-c for c in a), -k) in keys for a, k in norm):
        out.append('eq-pair')
    for a, k in norm:
        g = 0
        for c in a:
            g = gcd(g, abs(c))
        if g > 1 and k % g != 0:
            out.append('gcd-tighten')
            break
    if nonunit_1var(rows):
        out.append('nonunit-1var-row')
    one_signed = False
    exact = False
    twosided = False
    for i in range(nv):
        pos = [a[i] for a, _ in norm if a[i] > 0]
        neg = [a[i] for a, _ in norm if a[i] < 0]
        if (pos and not neg) or (neg and not pos):
            one_signed = True
        if pos and neg:
            twosided = True
            if all(c == 1 for c in pos) or all(c == -1 for c in neg):
                exact = True
    if one_signed:
        out.append('unbounded-var')
    if twosided:
        out.append('exact-elim' if exact else 'dark-shadow')
    return out


def n_used_vars(nv, rows):
    return sum(1 for i in range(nv) if any(a[i] != 0 for a, _, _ in rows))


# ---------------------------------------------------------------- decoding
def decode(case):
    if not isinstance(case, dict):
        raise CaseInvalid('case')
    ep = case.get('ep')
    if ep not in EP_OPS:
        raise CaseInvalid('ep')
    nv = case.get('nv')
    if not isinstance(nv, int) or isinstance(nv, bool) or not 1 <= nv <= 6:
        raise CaseInvalid('nv')
    rows = case.get('rows')
    if not isinstance(rows, list) or not 1 <= len(rows) <= 12:
        raise CaseInvalid('rows')
    out = []
    for r in rows:
        if not (isinstance(r, list) and len(r) == 3 and isinstance(r[0], list) and len(r[0]) == nv):
            raise CaseInvalid('row')
        a, op, b = r
        if op not in EP_OPS[ep]:
            raise CaseInvalid('op')
        for c in list(a) + [b]:
            if not isinstance(c, int) or isinstance(c, bool) or abs(c) > 400:
                raise CaseInvalid('number')
        out.append((list(a), op, b))
    enc = case.get('enc') or {}
    if not isinstance(enc, dict):
        raise CaseInvalid('enc')
    enc = {'zeros': enc.get('zeros', 'drop'), 'style': enc.get('style', 'factoid'),
           'one': enc.get('one', 'explicit'), 'names': enc.get('names', 'letters')}
    if enc['zeros'] not in ('drop', 'keep') or enc['style'] not in ('factoid', 'general') or \
            enc['one'] not in ('explicit', 'implicit') or enc['names'] not in NAME_SCHEMES:
        raise CaseInvalid('enc value')
    return ep, nv, out, enc


# ---------------------------------------------------------------- reading linear constraints back from HOL terms
class NotLinear(Exception):
    pass


def lin_of_term(t):
    """(coefficients: dict name -> Fraction, constant) of a linear HOL term; own reader, no repo normaliser."""
    if t.is_number():
        return {}, Fraction(t.dest_number())
    if t.is_var():
        return {t.name: Fraction(1)}, Fraction(0)
    if t.is_comb('of_int', 1) or t.is_comb('of_nat', 1):
        return lin_of_term(t.arg)
    if t.is_plus() or t.is_minus():
        c1, k1 = lin_of_term(t.arg1)
        c2, k2 = lin_of_term(t.arg)
        sg = 1 if t.is_plus() else -1
        out = dict(c1)
        for n, c in c2.items():
            out[n] = out.get(n, 0) + sg * c
        return out, k1 + sg * k2
    if t.is_uminus():
        c, k = lin_of_term(t.arg)
        return {n: -v for n, v in c.items()}, -k
    if t.is_times():
        c1, k1 = lin_of_term(t.arg1)
        c2, k2 = lin_of_term(t.arg)
        if not any(c1.values()):
            return {n: k1 * v for n, v in c2.items()}, k1 * k2
        if not any(c2.values()):
            return {n: k2 * v for n, v in c1.items()}, k1 * k2
    raise NotLinear(str(t))


def canon_key(coeffs, k, strict, is_int):
    """Key of   sum coeffs[n]*n + k  (> if strict else >=)  0."""
    if is_int and strict:
        k, strict = k - 1, False
    return (tuple(sorted((n, Fraction(c)) for n, c in coeffs.items() if c != 0)), Fraction(k), bool(strict))


def key_of_row(a, op, b, names, is_int):
    if op in ('>=', '>'):
        return canon_key({names[i]: Fraction(c) for i, c in enumerate(a)}, Fraction(-b), op == '>', is_int)
    return canon_key({names[i]: Fraction(-c) for i, c in enumerate(a)}, Fraction(b), op == '<', is_int)


def key_of_term(t, is_int):
    if t.is_less_eq():
        lo, hi, strict = t.arg1, t.arg, False
    elif t.is_less():
        lo, hi, strict = t.arg1, t.arg, True
    elif t.is_greater_eq():
        lo, hi, strict = t.arg, t.arg1, False
    elif t.is_greater():
        lo, hi, strict = t.arg, t.arg1, True
    else:
        raise NotLinear('not a comparison: %s' % t)
    c1, k1 = lin_of_term(hi)
    c2, k2 = lin_of_term(lo)
    out = dict(c1)
    for n, c in c2.items():
        out[n] = out.get(n, 0) - c
    return canon_key(out, k1 - k2, strict, is_int)


# ---------------------------------------------------------------- building inputs for the code under test
def hol_vars(nv, enc, T):
    from kernel.term import Var
    names = NAME_SCHEMES[enc['names']][:nv]
    return names, [Var(n, T) for n in names]


def hol_sum(a, vs, T, one_explicit, drop_zero=True):
    from kernel.term import Number
    parts = []
    for c, v in zip(a, vs):
        if c == 0 and drop_zero:
            continue
        if c == 1 and not one_explicit:
            parts.append(v)
        else:
            parts.append(Number(T, c) * v)
    if not parts:
        return None
    s = parts[0]
    for p in parts[1:]:
        s = s + p
    return s


def hol_compare(op, T):
    from kernel import term
    return {'>=': term.greater_eq, '<=': term.less_eq, '>': term.greater, '<': term.less}[op](T)


def build_terms(nv, rows, enc, T, ep):
    """HOL comparisons for the term-based entry points.  Raises CaseInvalid when a row has no term form a real
    caller could deliver (a row without variables for the macros, whose input is `sum op number`)."""
    from kernel.term import Number
    names, vs = hol_vars(nv, enc, T)
    out = []
    for a, op, b in rows:
        if ep == 'omega_hol' and enc['style'] == 'factoid':
            # exactly the shape omega.factoid_to_term produces:  0 <= c1*v1 + .. + k
            if op in ('>=', '>'):
                aa, k = list(a), -b - (1 if op == '>' else 0)
            else:
                aa, k = [-c for c in a], b - (1 if op == '<' else 0)
            s = hol_sum(aa, vs, T, True)
            s = Number(T, k) if s is None else s + Number(T, k)
            out.append(hol_compare('<=', T)(Number(T, 0), s))
            continue
        s = hol_sum(a, vs, T, enc['one'] == 'explicit')
        if s is None:
            if ep != 'omega_hol':
                raise CaseInvalid('row without variables has no macro input form')
            s = Number(T, 0)
        out.append(hol_compare(op, T)(s, Number(T, b)))
    return names, out


def build_ineqs(mod, nv, rows, enc, names, pair=None):
    """Jar / GreaterEq / LessEq objects of prover.simplex or prover.simplex_strict."""
    out = []
    for a, op, b in rows:
        jars = [mod.Jar(c, names[i]) for i, c in enumerate(a) if c != 0 or enc['zeros'] == 'keep']
        if pair is None:
            bound = b
        else:
            bound = pair(b, {'>=': 0, '<=': 0, '>': 1, '<': -1}[op])
        if op in ('>=', '>'):
            out.append(mod.GreaterEq(jars, bound))
        else:
            out.append(mod.LessEq(jars, bound))
    return out


# ---------------------------------------------------------------- branch and bound under a node budget
class BBBudget(Exception):
    pass


class _CountingDeque(collections.deque):
    """Stands in for `deque` inside prover.simplex: branch_and_bound's loop condition `len(tree)` is outside its
    bare `except:`, so raising there is the only way to stop it."""
    popped = 0
    budget = 10 ** 9

    def popleft(self):
        _CountingDeque.popped += 1
        return collections.deque.popleft(self)

    def __len__(self):
        if _CountingDeque.popped >= _CountingDeque.budget:
            raise BBBudget()
        return collections.deque.__len__(self)


def guarded_bb(fn, seconds=20):
    """Run fn() (which calls simplex.branch_and_bound) under the node budget and a CPU-time backstop.
    Returns ('ok', result) | ('budget', None) | ('timeout', None) | ('exc', exception)."""
    fired = [False]

    def handler(signum, frame):
        fired[0] = True
        _CountingDeque.budget = 0          # next loop test of branch_and_bound raises BBBudget
        f = frame
        while f is not None:
            if f.f_code.co_name == 'branch_and_bound':
                raise Timeout()            # swallowed by the bare except; kills the node that is spinning
            f = f.f_back
        signal.setitimer(signal.ITIMER_PROF, 0)

    _CountingDeque.popped = 0
    _CountingDeque.budget = BB_NODE_BUDGET
    old = signal.signal(signal.SIGPROF, handler)
    if _timeouts[0] >= 3:
        seconds = min(seconds, 2)
    signal.setitimer(signal.ITIMER_PROF, seconds, 0.05)
    try:
        try:
            r = fn()
            status = ('ok', r)
        except BBBudget:
            status = ('budget', None)
        except Timeout:
            status = ('timeout', None)
        except Exception as e:
            status = ('exc', e)
    finally:
        signal.setitimer(signal.ITIMER_PROF, 0)
        signal.signal(signal.SIGPROF, old)
        _CountingDeque.budget = 10 ** 9
    if fired[0]:
        return ('timeout', None)
    return status


# ---------------------------------------------------------------- running one entry point
# outcome: ('sat', model, extra) | ('unsat', proof_or_None, extra) | ('noconcl',) | ('exc', TypeName, text)
#          | ('timeout',) | ('budget',) | ('bad', text)
def quiet(fn):
    buf = io.StringIO()
    with contextlib.redirect_stdout(buf):
        return fn()


def run_ep(ep, nv, rows, enc):
    from kernel.type import IntType, RealType
    from kernel.proofterm import ProofTerm
    names = NAME_SCHEMES[enc['names']][:nv]
    try:
        if ep == 'omega_matrix':
            mat = [list(a) + [-b] for a, _, b in rows]
            with time_limit(10):
                res = omega.solve_matrix(mat)
            if not (isinstance(res, tuple) and len(res) == 2):
                return ('bad', repr(res))
            if res[0] == 'SAT':
                return ('sat', {i: v for i, v in res[1].items()}, None)
            if res[0] == 'UNSAT':
                return ('unsat', None, None)
            if res[0] == 'NOCONCL':
                return ('noconcl',)
            return ('bad', repr(res))
        if ep == 'omega_hol':
            _, terms = build_terms(nv, rows, enc, IntType, ep)
            with time_limit(60):
                h = omega.OmegaHOL(terms)
                res = h.solve()
            if res is None:
                return ('noconcl',)
            if isinstance(res, dict):
                model = {}
                for i, v in res.items():
                    if 0 <= i < len(h.vars) and h.vars[i].is_var() and h.vars[i].name in names:
                        model[names.index(h.vars[i].name)] = v
                return ('sat', model, None)
            if isinstance(res, ProofTerm):
                return ('unsat', res, None)
            return ('bad', repr(res))
        if ep in ('simplex', 'strict'):
            mod = simplex if ep == 'simplex' else simplex_strict
            ineqs = build_ineqs(mod, nv, rows, enc, names, mod.Pair if ep == 'strict' else None)
            s = mod.Simplex()
            try:
                with time_limit(20):
                    s.add_ineqs(*ineqs)
                    s.handle_assertion()
            except (mod.UNSATException, mod.AssertUpperException, mod.AssertLowerException):
                return ('unsat', None, None)
            return ('sat', {i: s.mapping.get(n, 0) for i, n in enumerate(names)}, None)
        if ep == 'bb':
            ineqs = build_ineqs(simplex, nv, rows, enc, names)

            def go():
                s = simplex.Simplex()
                s.add_ineqs(*ineqs)
                return simplex.branch_and_bound(s, [], [])
            st, r = guarded_bb(go)
            if st == 'exc':
                return ('exc', type(r).__name__, str(r))
            if st != 'ok':
                if st == 'timeout':
                    count_timeout()
                return (st,)
            if isinstance(r, dict):
                return ('sat', {i: r.get(n, 0) for i, n in enumerate(names)}, None)
            if isinstance(r, simplex.IntSimplexTree):
                return ('unsat', None, None)
            return ('bad', repr(r))
        if ep == 'simplex_hol':
            ineqs = build_ineqs(simplex, nv, rows, enc, names)
            with time_limit(120):
                w = simplex.SimplexHOLWrapper()
                w.add_ineqs(ineqs)
                r = w.handle_assertion()
            if isinstance(r, ProofTerm):
                return ('unsat', r, None)
            if isinstance(r, dict):
                return ('sat', {i: r.get(n, 0) for i, n in enumerate(names)}, None)
            return ('bad', repr(r))
        if ep in ('simplex_macro', 'strict_macro'):
            if ep == 'strict_macro' and not any(op in ('>', '<') for _, op, _ in rows):
                # prover/proofrec.py calls StrictSimplexMacro only when a strict comparison is present
                raise CaseInvalid('strict_macro without a strict row')
            _, terms = build_terms(nv, rows, enc, RealType, ep)
            macro = simplex.SimplexMacro() if ep == 'simplex_macro' else simplex_strict.StrictSimplexMacro()
            with time_limit(180):
                r = quiet(lambda: macro.get_proof_term(args=terms))
            if isinstance(r, ProofTerm):
                return ('unsat', r, None)
            if isinstance(r, dict):
                # the macros rename the variables to fresh x_<k> with k increasing in order of first occurrence
                order = []
                for a, _, _ in rows:
                    for i, c in enumerate(a):
                        if (c != 0) and i not in order:
                            order.append(i)
                fresh = sorted((k for k in r if isinstance(k, str) and k.startswith('x_') and k[2:].isdigit()),
                               key=lambda k: int(k[2:]))
                if len(fresh) != len(order):
                    return ('sat-unreadable',)
                return ('sat', {i: r[k] for k, i in zip(fresh, order)}, None)
            return ('bad', repr(r))
        if ep == 'int_macro':
            _, terms = build_terms(nv, rows, enc, IntType, ep)
            macro = simplex.IntegerSimplexMacro()
            st, r = guarded_bb(lambda: quiet(lambda: macro.get_proof_term(args=terms)), seconds=120)
            if st == 'exc':
                return ('exc', type(r).__name__, str(r))
            if st != 'ok':
                if st == 'timeout':
                    count_timeout()
                return (st,)
            if isinstance(r, ProofTerm):
                return ('unsat', r, None)
            return ('bad', repr(r))
    except Timeout:
        count_timeout()
        return ('timeout',)
    except CaseInvalid:
        raise
    except Exception as e:
        return ('exc', type(e).__name__, str(e))
    raise CaseInvalid('ep')


# ---------------------------------------------------------------- judging an outcome
def judge_model(ep, nv, rows, model):
    """(None, []) if the returned assignment is a genuine witness, else (what is wrong, indices of violated rows)."""
    is_int = ep in EP_INT
    vals = []
    pairs = False
    for i in range(nv):
        v = model.get(i, 0)
        if ep in ('strict', 'strict_macro') and hasattr(v, 'x') and hasattr(v, 'y'):
            pairs = True
            try:
                vals.append((Fraction(v.x), Fraction(v.y)))
            except Exception:
                return 'value of variable %d is not finite: %r' % (i, v), []
            continue
        if isinstance(v, bool) or not isinstance(v, (int, Fraction)):
            if isinstance(v, float) and v == int(v) and abs(v) < 2 ** 50:
                v = int(v)
            else:
                return 'value of variable %d is %r (%s), not an exact number' % (i, v, type(v).__name__), []
        v = Fraction(v)
        if is_int and v.denominator != 1:
            return 'value of variable %d is %s, not an integer' % (i, v), []
        vals.append(v)
    if pairs:
        vals = [v if isinstance(v, tuple) else (v, Fraction(0)) for v in vals]
        bad = first_bad_row_pairs(rows, vals)
        shown = ['%s%+sd' % (p, q) if q else str(p) for p, q in vals]
    else:
        bad = first_bad_row(rows, vals)
        shown = [str(v) for v in vals]
    if bad is not None:
        a, op, b = rows[bad]
        return 'assignment %s violates row %d: %s . x %s %s' % (shown, bad, a, op, b), bad_rows_of(rows, vals)
    return None, []


def judge_proof(ep, nv, rows, enc, pt, truth):
    """List of (failure class, detail) for a returned proof term."""
    from kernel import theory
    from kernel.term import false
    from kernel.report import ProofReport
    is_int = ep in EP_INT
    names = NAME_SCHEMES[enc['names']][:nv]
    out = []
    th = pt.th
    if th.prop != false:
        out.append(('proof-not-false', 'conclusion is %s' % th.prop))
    try:
        with time_limit(300):
            rpt = ProofReport()
            res = theory.thy.check_proof(pt.export(), rpt, no_gaps=True)
        if res.prop != th.prop or not set(res.hyps) <= set(th.hyps):
            out.append(('proof-checked-differs', 'checked %s, claimed %s' % (res, th)))
    except Timeout:
        return [('!check-timeout', '')]
    except Exception as e:
        out.append(('proof-rejected', '%s: %s' % (type(e).__name__, str(getattr(e, 'str', e))[:300])))
    given = {}
    for i, (a, op, b) in enumerate(rows):
        given.setdefault(key_of_row(a, op, b, names, is_int), i)
    used = []
    for h in th.hyps:
        try:
            k = key_of_term(h, is_int)
        except NotLinear:
            out.append(('proof-foreign-hyp', 'hypothesis %s is not a linear comparison; given rows %s' % (h, rows)))
            continue
        if k not in given:
            out.append(('proof-foreign-hyp', 'hypothesis %s is none of the given rows %s (names %s)' % (h, rows, names)))
        else:
            used.append(given[k])
    if not out and truth is not None and truth[0] == 'sat':
        out.append(('proof-of-false-from-satisfiable', 'checked proof of false although %s satisfies all rows' % truth[1]))
    return out


SITE = {
    'omega_matrix': 'omega.solve_matrix', 'omega_hol': 'omega.OmegaHOL', 'simplex': 'simplex.Simplex',
    'strict': 'simplex_strict.Simplex', 'bb': 'simplex.branch_and_bound', 'simplex_hol': 'simplex.SimplexHOLWrapper',
    'simplex_macro': 'simplex.SimplexMacro', 'strict_macro': 'simplex_strict.StrictSimplexMacro',
    'int_macro': 'simplex.IntegerSimplexMacro',
}


def site_of(ep, cls, feat):
    """Component a failure is filed under: the sat/unsat decision and the assignment of the two real macros are
    made by their SimplexHOLWrapper, so those failures of simplex_macro and SimplexHOLWrapper share a site."""
    if feat == 'zero-coeff-jar' and ep in ('bb', 'simplex_hol'):
        return SITE['simplex']          # Simplex.add_ineq drops the row
    if ep == 'simplex_macro' and (cls == 'wrong-answer' or feat == 'shared-lhs'):
        return SITE['simplex_hol']
    if ep == 'strict_macro' and (cls == 'wrong-answer' or feat == 'shared-lhs'):
        return 'simplex_strict.SimplexHOLWrapper'
    return SITE[ep]


FLIP = {'>=': '<=', '<=': '>=', '>': '<', '<': '>'}


def unshare(rows):
    """Equivalent system in which no two rows have the same coefficient vector (rows rewritten by negation or by a
    positive multiple)."""
    seen = set()
    out = []
    for a, op, b in rows:
        cands = [(list(a), op, b), ([-c for c in a], FLIP[op], -b)]
        for m in (2, 3, 5, 7):
            cands.append(([m * c for c in a], op, m * b))
            cands.append(([-m * c for c in a], FLIP[op], -m * b))
        for c in cands:
            if tuple(c[0]) not in seen or not any(c[0]) or is_atom_row(a):
                break
        seen.add(tuple(c[0]))
        out.append(c)
    return out


def is_atom_row(a):
    """x_i op b with coefficient exactly 1: Simplex keeps these as bounds on x_i, every other row gets a slack."""
    return sum(1 for c in a if c) == 1 and sum(a) == 1


def shared_lhs(rows):
    vecs = [tuple(a) for a, _, _ in rows if any(a) and not is_atom_row(a)]
    return len(set(vecs)) < len(vecs)


def is_1var(a):
    return sum(1 for c in a if c) == 1


def atomize(rows, ops):
    """Integer-equivalent system whose single-variable rows have coefficient +1 (or -1 where only >= is allowed)."""
    out = []
    for a, op, b in rows:
        if is_1var(a):
            a, op, b = tighten_row(a, op, b)
            if min(a) < 0 and FLIP[op] in ops:
                a, op, b = [-c for c in a], FLIP[op], -b
        out.append((list(a), op, b))
    return out


def without_zero_rows(nv, rows, ops):
    """Same satisfiability, no row without variables: true ones are dropped, a false one becomes x0 >= 1, x0 <= 0."""
    out = []
    false_row = False
    for a, op, b in rows:
        if any(a):
            out.append((list(a), op, b))
        elif not cmp_op(0, op, b):
            false_row = True
    e0 = [1] + [0] * (nv - 1)
    if false_row:
        out.append((e0, '>=', 1))
        out.append((e0, '<=', 0) if '<=' in ops else ([-c for c in e0], '>=', 0))
    if not out:
        out.append((e0, '>=', 0))
    return out


def attribution_candidates(ep, nv, rows, enc):
    """[(feature, fn)], most specific first; fn(rows, enc) -> an equivalent input on which the feature is absent.
    The transformations keep satisfiability and (except for the last resort of an all-zero system) the solution
    set, over the integers for the integer entry points."""
    out = []
    ops = EP_OPS[ep]
    if ep in ('omega_matrix', 'omega_hol') and nonunit_1var(rows):
        out.append(('nonunit-1var-row', lambda r, e: (atomize(r, ('>=',) if ep == 'omega_matrix' else ()), e)))
    if ep in ('bb', 'int_macro') and any(is_1var(a) and sum(a) != 1 for a, _, _ in rows):
        out.append(('1var-row-coeff-not-1', lambda r, e: (atomize(r, ops), e)))
    if ep in ('simplex', 'strict', 'bb', 'simplex_hol') and enc['zeros'] == 'keep' and \
            any(c == 0 for a, _, _ in rows for c in a):
        out.append(('zero-coeff-jar', lambda r, e: (r, dict(e, zeros='drop'))))
    if ep not in ('omega_matrix', 'omega_hol') and shared_lhs(rows):
        out.append(('shared-lhs', lambda r, e: (unshare(r), e)))
    if any(not any(a) for a, _, _ in rows):
        out.append(('zero-row', lambda r, e: (without_zero_rows(nv, r, ops), e)))
    if ep in ('omega_hol', 'simplex_macro', 'strict_macro', 'int_macro') and enc['names'] != 'letters':
        out.append(('x_k-names', lambda r, e: (r, dict(e, names='letters'))))
    return out


def feature_of(ep, cls, nv, rows, enc, bad_rows):
    """(feature, attributed?) for the signature.  A feature is attributed only if on an equivalent input without it
    the entry point answers (sat / unsat / no conclusion; not an exception) and nothing is wrong with the answer, so
    that another defect met on an input that merely has the feature keeps its own signature ('plain')."""
    def cured(rows2, enc2):
        try:
            viol2, out2, _ = evaluate(ep, nv, [tuple(r) for r in rows2], enc2, want_truth=False)
        except CaseInvalid:
            return False
        return out2[0] in ('sat', 'unsat', 'noconcl', 'budget') and not viol2
    cands = attribution_candidates(ep, nv, rows, enc)
    for feat, fn in cands:
        if cured(*fn(rows, enc)):
            return feat, True
    if bad_rows and any(f == 'shared-lhs' for f, _ in cands):
        # the assignment breaks only rows whose left-hand side also occurs in another row
        vecs = [tuple(a) for a, _, _ in rows]
        if all(vecs.count(vecs[i]) > 1 and not is_atom_row(vecs[i]) for i in bad_rows):
            return 'shared-lhs', True
    # two known causes at once: all transformations together
    if len(cands) > 1:
        r2, e2 = rows, enc
        for _, fn in cands:
            r2, e2 = fn(r2, e2)
        if cured(r2, e2):
            return cands[0][0], True
    return 'plain', False


def evaluate(ep, nv, rows, enc, want_truth=True):
    """Run the entry point and judge it.  Returns (violations [(class, detail, violated rows or None)], outcome,
    truth)."""
    from kernel import theory
    theory.thy = _thy['real']
    is_int = ep in EP_INT
    out = run_ep(ep, nv, rows, enc)
    tag = out[0]
    truth = None
    viol = []
    if tag == 'sat':
        why, bad = judge_model(ep, nv, rows, out[1])
        if why is not None:
            viol.append(('wrong-answer', 'answered satisfiable, but ' + why, bad))
        if want_truth:
            truth = z3_truth(nv, rows, is_int)
    elif tag == 'unsat':
        truth = z3_truth(nv, rows, is_int)
        if truth[0] == 'unsat' and is_int and nv <= 3:
            w = brute_int(nv, rows, 8)
            if w is not None:
                raise SelfTestError('oracles disagree: z3 says unsat, brute force finds %s for %s' % (w, rows))
        if truth[0] == 'sat':
            viol.append(('wrong-answer', 'answered %s, but %s satisfies every row' % (
                'contradiction' if ep.startswith('omega') else 'unsatisfiable', [str(v) for v in truth[1]]), None))
        if out[1] is not None:
            viol.extend((c, d, None) for c, d in judge_proof(ep, nv, rows, enc, out[1], truth))
    elif tag == 'bad':
        viol.append(('bad-result', out[1], None))
    elif want_truth:
        truth = z3_truth(nv, rows, is_int)
    return viol, out, truth


def run_case(case, H):
    ep, nv, rows, enc = decode(case)
    viol, out, truth = evaluate(ep, nv, rows, enc)
    tag = out[0]
    st = structure(nv, rows)
    done = set()
    for cls, detail, bad in viol:
        if cls.startswith('!'):
            H.inconc(ep + ':' + cls[1:])
            continue
        feat, attributed = feature_of(ep, cls, nv, rows, enc, bad)
        # one root cause, one signature: when the input feature is pinned down by the equivalent-input test, wrong
        # verdicts, wrong witnesses and bad proofs caused by it are filed together
        sig = '%s:%s:%s' % (site_of(ep, cls, feat), 'wrong-result' if attributed else cls, feat)
        if sig in done:
            continue
        done.add(sig)
        H.violation(sig, case, cls + ': ' + detail if attributed else detail)
    tstr = truth[0] if truth is not None else 'na'
    if tag in ('sat', 'unsat'):
        klass = ['%s:%s' % (ep, tag)]
    elif tag == 'exc':
        klass = ['%s:exception:%s' % (ep, out[1])]
        H.inconc('%s:exception:%s' % (ep, out[1]))
    else:
        klass = ['%s:%s:truth-%s' % (ep, tag, tstr)]
        H.inconc('%s:%s' % (ep, tag))
    klass.append('truth:%s:%s' % ('int' if ep in EP_INT else 'rat', tstr))
    klass.extend('shape:' + s for s in st)
    nontrivial = tag in ('sat', 'unsat') and len(rows) >= 2 and n_used_vars(nv, rows) >= 2
    H.case(case, nontrivial, klass)


# ---------------------------------------------------------------- generation
def system_strategy(ep):
    from hypothesis import strategies as st
    ops = EP_OPS[ep]
    is_int = ep in EP_INT
    coef = st.integers(-4, 4)
    const = st.integers(-8, 8)

    @st.composite
    def systems(draw):
        nv = draw(st.sampled_from([1, 2, 2, 2, 3, 3, 3, 4, 4, 5]))
        shape = draw(st.sampled_from(['rand', 'rand', 'sparse', 'planted', 'farkas', 'farkas', 'slab', 'slab']))
        rows = []      # all as  a.x >= b  first
        if shape == 'rand':
            for _ in range(draw(st.integers(1, 8))):
                rows.append([draw(st.lists(coef, min_size=nv, max_size=nv)), draw(const)])
        elif shape == 'sparse':
            for _ in range(draw(st.integers(1, 8))):
                a = [0] * nv
                for _ in range(draw(st.integers(1, 2))):
                    a[draw(st.integers(0, nv - 1))] = draw(coef)
                rows.append([a, draw(const)])
        elif shape == 'planted':
            p = draw(st.lists(st.integers(-3, 3), min_size=nv, max_size=nv))
            for _ in range(draw(st.integers(2, 8))):
                a = draw(st.lists(coef, min_size=nv, max_size=nv))
                rows.append([a, sum(c * v for c, v in zip(a, p)) - draw(st.integers(0, 2))])
        elif shape == 'farkas':
            k = draw(st.integers(1, 4))
            small = st.integers(-3, 3)
            for _ in range(k):
                a = draw(st.lists(small, min_size=nv, max_size=nv))
                rows.append([a, draw(st.integers(-6, 6))])
            lam = draw(st.lists(st.integers(1, 3), min_size=k, max_size=k))
            margin = draw(st.sampled_from([-1, 0, 0, 1, 1]))
            a = [-sum(l * r[0][i] for l, r in zip(lam, rows)) for i in range(nv)]
            b = -sum(l * r[1] for l, r in zip(lam, rows)) + margin
            rows.append([a, b])
            for _ in range(draw(st.integers(0, 2))):
                rows.append([draw(st.lists(coef, min_size=nv, max_size=nv)), draw(st.integers(-8, 0))])
        else:   # slab
            big = st.integers(2, 6).flatmap(lambda m: st.sampled_from([m, -m]))
            for _ in range(draw(st.integers(1, min(3, nv) + 1))):
                a = [0] * nv
                idx = draw(st.lists(st.integers(0, nv - 1), min_size=1, max_size=3, unique=True))
                for i in idx:
                    a[i] = draw(big)
                b = draw(const)
                w = draw(st.integers(0, 3))
                rows.append([a, b])
                rows.append([[-c for c in a], -(b + w)])
            for _ in range(draw(st.integers(0, 2))):
                rows.append([draw(st.lists(coef, min_size=nv, max_size=nv)), draw(const)])
        # mutations (explicit weights: Hypothesis skews integer ranges towards their ends)
        mut = draw(st.sampled_from(['none'] * 12 + ['dup', 'dup', 'zero', 'eq', 'eq', 'dup+eq', 'zero+eq', 'zero+dup']))
        if 'dup' in mut:
            a, b = rows[draw(st.integers(0, len(rows) - 1))]
            rows.append([list(a), b])
        if 'zero' in mut:
            rows.append([[0] * nv, draw(st.integers(-2, 2))])
        if 'eq' in mut:
            a, b = rows[draw(st.integers(0, len(rows) - 1))]
            rows.append([[-c for c in a], -b])
        rows = draw(st.permutations(rows))[:8]
        if ep in ('simplex_hol', 'simplex_macro', 'strict_macro', 'int_macro'):
            # these take `sum op number` with at least one summand
            rows = [r for r in rows if any(r[0])] or [[[1] + [0] * (nv - 1), 0]]
        if ep not in ('omega_matrix', 'omega_hol') and draw(st.sampled_from([True, True, False])):
            # Simplex.add_ineq raises KeyError for most systems with a row c*x (|c| > 1) after another row on x:
            # keep such rows in a third of the systems only, otherwise little else is exercised
            rows = [[[(c > 0) - (c < 0) for c in a], b] if sum(1 for c in a if c) == 1 else [a, b] for a, b in rows]
        final = []
        for a, b in rows:
            op = '>='
            if '<=' in ops and draw(st.booleans()):
                a, b, op = [-c for c in a], -b, '<='
            if '>' in ops and draw(st.sampled_from([False, False, False, True])):
                op = '>' if op == '>=' else '<'
                if is_int and draw(st.booleans()):
                    b = b - 1 if op == '>' else b + 1      # same integer solutions
            final.append([list(a), op, b])
        if ep == 'strict_macro' and not any(r[1] in ('>', '<') for r in final):
            r = final[draw(st.integers(0, len(final) - 1))]
            r[1] = '>' if r[1] == '>=' else '<'
        enc = {}
        if ep in ('simplex', 'strict', 'bb', 'simplex_hol'):
            enc['zeros'] = draw(st.sampled_from(['drop', 'drop', 'drop', 'keep']))
        if ep == 'omega_hol':
            enc['style'] = draw(st.sampled_from(['factoid', 'general']))
        if ep in ('omega_hol', 'simplex_macro', 'strict_macro', 'int_macro'):
            enc['one'] = draw(st.sampled_from(['explicit', 'implicit']))
            enc['names'] = draw(st.sampled_from(['letters', 'letters', 'x1', 'x0', 'xrev']))
        return {'ep': ep, 'nv': nv, 'rows': final, 'enc': enc}
    return systems()


# cases per entry point in the quick tier, and rough CPU cost of one case (ms) used to size and order the shards
QUICK = {'omega_matrix': 5000, 'omega_hol': 360, 'simplex': 5000, 'strict': 3000, 'bb': 3000,
         'simplex_hol': 700, 'simplex_macro': 300, 'strict_macro': 64, 'int_macro': 200}
COST_MS = {'omega_matrix': 13, 'omega_hol': 190, 'simplex': 7, 'strict': 9, 'bb': 11,
           'simplex_hol': 35, 'simplex_macro': 110, 'strict_macro': 950, 'int_macro': 215}


def shards(tier):
    mult = 1 if tier == 'quick' else 8
    per_shard_ms = 15000 if tier == 'quick' else 100000
    out = []
    for ep in EPS:
        n = QUICK[ep] * mult
        k = max(2, round(n * COST_MS[ep] / per_shard_ms))
        for i, m in enumerate(harness.split(n, k)):
            out.append({'ep': ep, 'n': m, 'i': i})
    out.sort(key=lambda d: (-d['n'] * COST_MS[d['ep']], d['ep'], d['i']))
    return out


def run_shard(desc, seed, tier, H):
    _timeouts[0] = 0

    def body(case):
        if _timeouts[0] >= MAX_TIMEOUTS:
            H.note('skipped_after_%d_timeouts' % MAX_TIMEOUTS)
            return
        try:
            run_case(case, H)
        except CaseInvalid:
            H.note('generated_case_invalid')
    harness.hyp_run(system_strategy(desc['ep']), body, desc['n'], seed)


# ---------------------------------------------------------------- setup and self-test
def setup():
    global omega, simplex, simplex_strict
    from prover import omega as _o
    from prover import simplex as _s
    from prover import simplex_strict as _ss
    from logic import basic
    from kernel import theory
    omega, simplex, simplex_strict = _o, _s, _ss
    basic.load_theory('real')
    _thy['real'] = theory.thy
    if simplex.deque is not collections.deque and not issubclass(simplex.deque, collections.deque):
        raise SelfTestError('prover.simplex.deque is not collections.deque any more')
    simplex.deque = _CountingDeque
    self_test()
    # the library theories are millions of objects: keep the collector (and copy-on-write in the forked workers)
    # away from them
    import gc
    gc.collect()
    gc.freeze()


def self_test():
    from kernel.term import Var, Int, Real, Number
    from kernel.type import IntType, RealType
    from kernel import term
    # evaluation
    rows = [([2, 3], '>=', 7), ([-2, -3], '>=', -7)]
    if first_bad_row(rows, [Fraction(2), Fraction(1)]) is not None or first_bad_row(rows, [Fraction(1), Fraction(1)]) != 0:
        raise SelfTestError('first_bad_row')
    if first_bad_row_pairs([([1], '>', 3)], [(Fraction(3), Fraction(1))]) is not None or \
            first_bad_row_pairs([([1], '>', 3)], [(Fraction(3), Fraction(0))]) != 0 or \
            first_bad_row_pairs([([1], '<', 3)], [(Fraction(3), Fraction(1))]) != 0:
        raise SelfTestError('first_bad_row_pairs')
    # z3 + brute force on known systems
    known = [
        (1, [([2], '>=', 1), ([2], '<=', 1)], True, 'unsat'),
        (1, [([2], '>=', 1), ([2], '<=', 1)], False, 'sat'),
        (1, [([-1], '>=', -4), ([2], '>=', 6), ([-2], '>=', -6)], True, 'sat'),
        (2, [([3, -3], '>=', 1), ([3, -3], '<=', 2)], True, 'unsat'),
        (2, [([3, -3], '>=', 1), ([3, -3], '<=', 2)], False, 'sat'),
        (2, [([1, 1], '>', 2), ([1, 0], '<=', 0), ([0, 1], '<=', 2)], False, 'unsat'),
        (2, [([1, 1], '>=', 2), ([1, 0], '<=', 0), ([0, 1], '<=', 2)], False, 'sat'),
        (2, [([0, 0], '>=', 1)], True, 'unsat'),
    ]
    for nv, rows, is_int, want in known:
        got = z3_truth(nv, rows, is_int)
        if got[0] != want:
            raise SelfTestError('z3 oracle says %s for %s (int=%s), expected %s' % (got[0], rows, is_int, want))
        if is_int:
            b = brute_int(nv, rows, 8)
            if (b is not None) != (want == 'sat'):
                raise SelfTestError('brute force oracle wrong on %s' % (rows,))
    # tightening keeps the integer solutions
    for row in [([2, 4], '>=', 3), ([-3], '<=', 7), ([2], '>', 3), ([4, -2], '<', -3), ([3, 6], '<=', -4)]:
        t = tighten_row(*row)
        for pt in itertools.product(range(-6, 7), repeat=len(row[0])):
            x = [Fraction(v) for v in pt]
            if (first_bad_row([row], x) is None) != (first_bad_row([tuple(t)], x) is None):
                raise SelfTestError('tighten_row changes the solutions of %s' % (row,))
    # reading terms back
    x, y = Var('x', RealType), Var('y', RealType)
    t1 = term.greater_eq(RealType)(Real(2) * x + Real(-3) * y, Real(5))
    t2 = term.less_eq(RealType)(Real(-2) * x + Real(3) * y, Real(-5))
    t3 = term.less_eq(RealType)(Real(0), Real(2) * x + Real(-3) * y + Real(-5))
    t4 = term.greater_eq(RealType)(Real(2) * x + Real(-3) * y, Real(4))
    k = key_of_row([2, -3], '>=', 5, ['x', 'y'], False)
    if not (key_of_term(t1, False) == key_of_term(t2, False) == key_of_term(t3, False) == k) or key_of_term(t4, False) == k:
        raise SelfTestError('key_of_term / key_of_row')
    xi = Var('x', IntType)
    if key_of_term(term.greater(IntType)(Int(2) * xi, Int(3)), True) != key_of_row([2], '>=', 4, ['x'], True) or \
            key_of_term(term.less(IntType)(xi, Int(3)), True) != key_of_row([1], '<=', 2, ['x'], True):
        raise SelfTestError('integer strictness in keys')
    # the proof judge rejects a proof from a foreign hypothesis and accepts a genuine one
    from kernel.proofterm import ProofTerm
    from kernel import theory
    theory.thy = _thy['real']
    rows = [([1], '>=', 10), ([1], '<=', 9)]
    enc = {'zeros': 'drop', 'style': 'factoid', 'one': 'explicit', 'names': 'letters'}
    # a hand-made proof (library theorem real_comp_contr1), independent of the procedures under test
    from logic.logic import apply_theorem
    xr = Var('x', RealType)
    pt = apply_theorem('real_comp_contr1',
                       ProofTerm('real_compare', term.less(RealType)(Real(9), Real(10))),
                       ProofTerm.assume(term.greater_eq(RealType)(xr, Real(10))),
                       ProofTerm.assume(term.less_eq(RealType)(xr, Real(9))))
    if judge_proof('simplex_hol', 1, rows, enc, pt, ('unsat', None)):
        raise SelfTestError('judge_proof flags a good proof: %s' % judge_proof('simplex_hol', 1, rows, enc, pt, ('unsat', None)))
    bad = judge_proof('simplex_hol', 1, [([1], '>=', 10), ([1], '<=', 8)], enc, pt, ('unsat', None))
    if not any(c == 'proof-foreign-hyp' for c, _ in bad):
        raise SelfTestError('judge_proof misses a foreign hypothesis')
    if judge_model('omega_matrix', 1, [([3], '>=', -1)], {0: -1})[0] is None or \
            judge_model('omega_matrix', 1, [([3], '>=', -1)], {0: 0})[0] is not None or \
            judge_model('bb', 1, [([2], '>=', 1)], {0: Fraction(1, 2)})[0] is None or \
            judge_model('simplex', 1, [([2], '>=', 1)], {0: Fraction(1, 2)})[0] is not None:
        raise SelfTestError('judge_model')
    # the node budget stops branch_and_bound on a diverging instance
    global BB_NODE_BUDGET
    keep = BB_NODE_BUDGET
    BB_NODE_BUDGET = 40
    try:
        out = run_ep('bb', 2, [([2, 3], '>=', 1), ([2, 3], '<=', 1)], enc)
    finally:
        BB_NODE_BUDGET = keep
    if out[0] not in ('budget', 'sat', 'unsat', 'timeout', 'exc'):
        raise SelfTestError('guarded branch_and_bound returns %r' % (out,))
