"""C14 — every suggested proof step is applicable and does what the suggestion says.

Case (JSON): {"theory": name, "thm": name, "prefix": k, "walk": [OP...], "gap": i, "facts": [j...], "entry": e | null}
(walk: optional editing ops in the format of props/c13_edit.py, applied after the prefix; ops that raise are skipped)
The state is the one reached after the first k recorded steps of the library theorem; search_method is asked for the
i-th gap (mod #gaps) with the facts picked by index among the visible lines; entry e (mod #entries; null = all,
capped) is applied to a copy.
"""
import copy

from vlib import harness, ref, edit_lib
from vlib.harness import CaseInvalid, SelfTestError, time_limit, Timeout

ID = 'C14'
RULE = ("Proof states = every prefix of the recorded proofs of library theorems (theories logic, nat, function, set, list, "
        "gcd, iterate, lcm in the quick tier; more in thorough) and 14 generated goals in theory logic, in one third of "
        "the cases followed by a walk of up to 4 editing ops (suggestions, perturbations, next recorded step, as in C13; "
        "only states that pass a full check are kept); for a drawn gap line and a drawn selection of <= 2 "
        "visible fact lines, every entry returned by state.search_method is applied to a copy through "
        "method.apply_method after supplying the parameters the method declares in sig and the entry leaves open (fresh "
        "names; a type-correct term over the visible variables). Allowed outcomes: success, or "
        "ParameterQueryException (answered up to twice). Any other exception is 'fails outright' (reported only if the "
        "entry needed no harness-supplied parameter, or three different supplies all fail). On success: the gaps "
        "added are among the advertised _goal, an entry advertising no goals closes the selected gap and adds none, and "
        "each advertised _fact is the statement of some line (or, when the step asked for the instantiation of variables, "
        "an advertised !x. B is matched by a line B[x := t]). Non-trivial: an entry advertising _goal or _fact that applied "
        "successfully; distinct by (theorem, prefix, gap, facts, entry).")
ASSUMPTIONS = [
    "states are prefixes of recorded library proofs (the C13 walks exercise perturbed states for the editing invariants)",
    "an advertised goal that is not left open is taken to have been closed by an existing line or trivially (not re-derived)",
    "terms supplied for open parameters are variables or numerals of the required type",
]
SHRINK_BUDGET = 60
MAXTASKS = 4

_C = {}


def setup():
    from server import server, method  # noqa
    _C['quick'] = edit_lib.load_corpus(edit_lib.QUICK_THEORIES)
    if sum(len(v) for v in _C['quick'].values()) < 50:
        raise SelfTestError('corpus too small')


def corpus_for(tier):
    if tier == 'thorough':
        if 'thorough' not in _C:
            _C['thorough'] = edit_lib.load_corpus(edit_lib.THOROUGH_THEORIES)
        return _C['thorough']
    return _C['quick']


def gap_keys(state):
    return sorted(repr(edit_lib.thm_key(it.th)) for _, it in edit_lib.sorry_items(state))


def prop_key(t):
    return repr(ref.canon(ref.from_term(t)))


def multiset_minus(a, b):
    b = list(b)
    out = []
    for x in a:
        if x in b:
            b.remove(x)
        else:
            out.append(x)
    return out


def run_case(case, H):
    from server import method
    from kernel import theory
    from kernel.theory import ParameterQueryException
    from props.c13_edit import supply_params
    if not isinstance(case, dict):
        raise CaseInvalid('case')
    try:
        item, state = edit_lib.init_state(case['theory'], case['thm'])
    except CaseInvalid:
        raise
    except Exception as e:
        raise CaseInvalid('cannot initialise: %r' % e)
    k = case.get('prefix', 0)
    if not isinstance(k, int) or k < 0:
        raise CaseInvalid('prefix')
    try:
        with time_limit(60):
            for s in item.steps[:k]:
                try:
                    method.apply_method(state, dict(s))
                    state.check_proof(compute_only=True)
                except Timeout:
                    raise
                except Exception:
                    H.note('recorded-step-fails')
                    return
    except Timeout:
        H.inconc('timeout-prefix')
        return
    walked = 0
    if case.get('walk'):
        from props.c13_edit import build_step
        cursor, last_step = [k], [None]
        try:
            with time_limit(90):
                for op in case['walk'][:5]:
                    try:
                        r = build_step(state, op, item, cursor, last_step)
                        if r is None:
                            continue
                        wstep, is_next = r
                        work = copy.copy(state)
                        method.apply_method(work, wstep)
                        work.check_proof(compute_only=True)
                        work.check_proof()          # only states that pass a full check are query states
                    except Timeout:
                        raise
                    except Exception:
                        continue
                    state = work
                    walked += 1
                    last_step[0] = wstep
                    if is_next:
                        cursor[0] += 1
        except Timeout:
            H.inconc('timeout-walk')
            return
    gaps = edit_lib.sorry_items(state)
    if not gaps:
        H.note('no-gap')
        return
    gpos, gitem = gaps[case.get('gap', 0) % len(gaps)]
    facts = edit_lib.visible_facts(state, gpos)
    chosen = []
    for fi in (case.get('facts') or [])[:2]:
        if facts and isinstance(fi, int):
            p = facts[fi % len(facts)]
            if p not in chosen:
                chosen.append(p)
    gid = edit_lib.id_str(gpos)
    try:
        with time_limit(60):
            entries = state.search_method(gid, [edit_lib.id_str(p) for p in chosen])
    except Timeout:
        H.inconc('timeout-search')
        return
    except Exception as e:
        # search itself failing is not what the property is about (it speaks of returned suggestions)
        H.note('search-raised:' + type(e).__name__)
        return
    if not entries:
        H.case(case, False, 'query:no-suggestion')
        return
    e_idx = case.get('entry')
    todo = list(enumerate(entries))
    if isinstance(e_idx, int):
        todo = [todo[e_idx % len(todo)]]
    else:
        todo = todo[:10]
    before = gap_keys(state)
    sel_key = repr(edit_lib.thm_key(gitem.th))
    from props.c13_edit import shadowed_variable
    shadowed = shadowed_variable(state)
    for idx, entry in todo:
        mname = entry['method_name']
        sub = dict(case, entry=idx)
        base = {kk: v for kk, v in entry.items() if not kk.startswith('_') and kk != 'display'}
        base.setdefault('fact_ids', [])
        sig = method.global_methods[mname].sig
        needs_supply = any(p not in base for p in sig)
        outcome = None
        detail = ''
        final = None
        for variant in range(3 if needs_supply else 1):
            step = dict(base)
            supply_params(state, step, gpos, variant=variant)
            if any(p not in step for p in sig):
                outcome = 'cannot-supply-parameter'
                break
            work = copy.copy(state)
            answered = 0
            while True:
                try:
                    with time_limit(40):
                        method.apply_method(work, step)
                        work.check_proof(compute_only=True)
                    outcome = 'success'
                    final = work
                    break
                except Timeout:
                    outcome = 'timeout'
                    break
                except ParameterQueryException as q:
                    if answered >= 2:
                        outcome = 'asks-parameters'
                        break
                    answered += 1
                    supplied = False
                    work = copy.copy(state)
                    for pname in q.params:
                        if pname in step:
                            continue
                        val = supply_query_param(state, step, pname, gpos, variant)
                        if val is not None:
                            step[pname] = val
                            supplied = True
                    if not supplied:
                        outcome = 'asks-parameters'
                        break
                except Exception as ex:
                    outcome = 'exception'
                    detail = '%s: %s' % (type(ex).__name__, harness.exc_text(ex))
                    break
            if outcome != 'exception':
                break
        klass = ['m:' + mname, 'outcome:' + outcome] + (['after-walk'] if walked else [])
        adv_goal = entry.get('_goal')
        adv_fact = entry.get('_fact')
        nontrivial = False
        if outcome == 'timeout':
            H.inconc('timeout-apply')
        elif outcome == 'cannot-supply-parameter':
            H.inconc('cannot-supply-parameter:' + mname)
        elif outcome == 'exception' and shadowed:
            # one root cause (recorded under C13 as well): a name re-declared at another type is looked up by name
            H.violation('suggest:fails-outright:state-with-shadowed-variable', sub,
                        'entry %s on gap %s: %s' % ({kk: str(v)[:80] for kk, v in base.items()}, gid, detail))
        elif outcome == 'exception':
            H.violation('suggest:fails-outright:%s' % mname, sub,
                        'supplied-parameters=%s entry %s on gap %s facts %s: %s' % (needs_supply, {kk: str(v)[:80] for kk, v in base.items()}, gid,
                                                             [edit_lib.id_str(p) for p in chosen], detail))
        elif outcome == 'success':
            after = gap_keys(final)
            if adv_goal is not None:
                adv = [prop_key(t) for t in adv_goal]
                # gaps added = after - (before - selected gap)
                rest = list(before)
                if sel_key in rest:
                    rest.remove(sel_key)
                added = multiset_minus(after, rest)
                # compare on conclusions (the advertisement lists conclusions only)
                added_props = []
                for _, it in edit_lib.sorry_items(final):
                    kk = repr(edit_lib.thm_key(it.th))
                    if kk in added:
                        added.remove(kk)
                        added_props.append(prop_key(it.th.prop))
                extra = [p for p in added_props if p not in adv]
                if extra:
                    H.violation('suggest:leaves-unadvertised-goal:%s' % mname, sub,
                                'advertised %s but the step left %d gap(s) not among them' % ([str(t) for t in adv_goal], len(extra)))
                elif not adv and (len(after) != len(before) - 1):
                    H.violation('suggest:advertised-as-solving-but-gap-count-%d-to-%d:%s' % (0, 0, mname), sub,
                                'gaps before %d after %d' % (len(before), len(after)))
                nontrivial = True
            if adv_fact:
                lines = [it.th.prop for _, it in edit_lib.walk_items(final.prf) if it.th is not None]
                props = {prop_key(t) for t in lines}
                missing = [t for t in adv_fact if prop_key(t) not in props]
                if missing and answered:
                    # the step asked for the instantiation of the variables the advertisement quantifies over
                    missing = [t for t in missing if not any(is_instance_of_forall(t, ln) for ln in lines)]
                if missing:
                    H.violation('suggest:advertised-fact-missing:%s' % mname, sub, 'fact %s is not the statement of any line' % missing[0])
                nontrivial = True
        H.case(sub, nontrivial, klass, key={'t': case['theory'], 'n': case['thm'], 'p': k, 'w': case.get('walk') or [], 'g': gid,
                                            'f': [edit_lib.id_str(p) for p in chosen], 'e': idx}, sample=nontrivial)


def is_instance_of_forall(adv, line):
    """line = body[x1 := t1, ...] for adv = !x1 ... xk. body (k >= 1)."""
    from kernel.term import SVar
    from logic import matcher
    t, k = adv, 0
    while t.is_forall():
        t = t.arg.subst_bound(SVar('_c14_%d' % k, t.arg.var_T))
        k += 1
    if k == 0:
        return False
    try:
        matcher.first_order_match(t, line)
        return True
    except Exception:
        return False


def supply_query_param(state, step, pname, gpos, variant):
    """Answer a ParameterQueryException: param_<svar> needs a term of the schematic variable's type."""
    from kernel import theory
    gid = edit_lib.id_str(gpos)
    if pname == 'names':
        # one fresh name per leading universal quantifier of the goal
        from kernel.proof import ItemID
        t = state.prf.find_item(ItemID(tuple(gpos))).th.prop
        names = []
        while t.is_forall():        # logic.strip_all_implies wants exactly one name per LEADING quantifier
            names.append(edit_lib.fresh_name(state, gid, 'u', avoid=names))
            t = t.arg.body
        return ', '.join(names)
    if pname.startswith('param_') and 'theorem' in step:
        try:
            th = theory.thy.get_theorem(step['theorem'], svar=True)
        except Exception:
            return None
        for v in th.prop.get_svars():
            if v.name == pname[6:]:
                T = v.T
                if T.get_stvars():
                    # the type depends on the match: use the type of a visible variable only when unambiguous
                    return None
                return edit_lib.term_string_of_type(state, gid, T, variant)
    return None


def case_strategy(corpus):
    from hypothesis import strategies as st
    from props.c13_edit import PERT
    pool = [(th, nm) for th in sorted(corpus) for nm in corpus[th]]
    small = st.integers(0, 7)
    op = st.one_of(
        st.tuples(st.just('sugg'), small, st.lists(small, max_size=2), small, st.just(True)).map(list),
        st.tuples(st.just('sugg'), small, st.lists(small, max_size=2), small, st.just(True)).map(list),
        st.tuples(st.just('pert'), st.sampled_from(PERT), small, small, small, st.just(True)).map(list),
        st.tuples(st.just('next'), st.just(True)).map(list))
    walk = st.one_of(st.just([]), st.just([]), st.lists(op, min_size=1, max_size=4))
    lib = st.tuples(st.sampled_from(pool), st.integers(0, 12), st.integers(0, 5), st.lists(st.integers(0, 9), max_size=2), walk).map(
        lambda p: {'theory': p[0][0], 'thm': p[0][1], 'prefix': p[1], 'gap': p[2], 'facts': p[3], 'entry': None, 'walk': p[4]})
    # generated goals have no recorded steps: the state is reached by 1-3 suggestions (small indices, so that every
    # short suggestion path of a goal has a fair chance)
    tiny = st.integers(0, 3)
    gop = st.tuples(st.just('sugg'), st.integers(0, 2), st.one_of(st.just([]), st.lists(tiny, min_size=1, max_size=1)),
                    st.integers(0, 5), st.just(True)).map(list)
    goal = st.tuples(st.integers(0, len(edit_lib.GOALS) - 1), st.lists(gop, min_size=1, max_size=3), st.integers(0, 2),
                     st.one_of(st.just([]), st.lists(tiny, min_size=1, max_size=2))).map(
        lambda p: {'theory': '#goal', 'thm': str(p[0]), 'prefix': 0, 'gap': p[2], 'facts': p[3], 'entry': None, 'walk': p[1]})
    return st.one_of(lib, lib, goal)


def shards(tier):
    n, k = (900, 32) if tier == 'quick' else (8000, 96)
    return [{'n': c, 'i': i} for i, c in enumerate(harness.split(n, k))]


def run_shard(desc, seed, tier, H):
    corpus = corpus_for(tier)

    def body(case):
        # clamp the prefix to the recorded length so that cases are not wasted
        try:
            if case['theory'] == '#goal':
                case = dict(case, prefix=0)
            else:
                it = edit_lib.get_item(case['theory'], case['thm'])
                case = dict(case, prefix=case['prefix'] % (len(it.steps) + 1))
            run_case(case, H)
        except CaseInvalid:
            H.note('case-invalid')
    harness.hyp_run(case_strategy(corpus), body, desc['n'], seed)
