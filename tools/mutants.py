#!/venv/bin/python
"""Run the hand-written sensitivity mutants of one property:  tools/mutants.py <ID> [name-substring]
mutants/<ID>.json: [{"name":..., "file":..., "old":..., "new":...}, ...]  (textual single replacement in a scratch copy)."""
import json, os, subprocess, sys
pid = sys.argv[1]
flt = sys.argv[2] if len(sys.argv) > 2 else ''
ms = json.load(open(os.path.join(os.path.dirname(__file__), '..', 'mutants', pid + '.json')))
for m in ms:
    if flt not in m['name']:
        continue
    r = subprocess.run([os.path.join(os.path.dirname(__file__), 'mut.py'), pid, m['file'], m['old'], m['new']],
                       capture_output=True, text=True)
    last = r.stdout.strip().splitlines()
    verdict = last[-1] if last else '?'
    sigs = [l.strip() for l in last if l.strip().startswith('signature')]
    print('%-50s %s %s' % (m['name'], verdict, sigs[:3]))
    sys.stdout.flush()
