#!/venv/bin/python
"""Sensitivity helper:  tools/mut.py <ID> <file-relative-to-repo> <old> <new> [extra ./check args...]
Copies /repo to a scratch directory, applies ONE textual replacement, runs the property's check against the copy
(evidence and replays redirected to a scratch output dir), prints the verdict lines, removes everything."""
import os, shutil, subprocess, sys, tempfile

pid, rel, old, new = sys.argv[1:5]
extra = sys.argv[5:]
tmp = tempfile.mkdtemp(prefix='holpy-mut-%s-' % pid)
try:
    dst = os.path.join(tmp, 'repo')
    shutil.copytree('/repo', dst, ignore=shutil.ignore_patterns('.git', '__pycache__', 'node_modules'))
    path = os.path.join(dst, rel)
    s = open(path).read()
    if s.count(old) != 1:
        print('MUTANT-ERROR: pattern occurs %d times' % s.count(old)); sys.exit(2)
    open(path, 'w').write(s.replace(old, new))
    env = dict(os.environ, VERIF_REPO=dst, VERIF_OUT_DIR=os.path.join(tmp, 'out'))
    r = subprocess.run(['/verif/check', pid, '--tier', 'quick'] + extra, env=env, capture_output=True, text=True)
    out = r.stdout.strip().splitlines()
    for l in out:
        if l.startswith(('VIOLATION', 'KNOWN', 'HARNESS', pid)) or l.startswith('  signature'):
            print(l)
    print('exit', r.returncode, '=> mutant', 'CAUGHT' if r.returncode == 1 else 'MISSED' if r.returncode == 0 else 'ERROR')
    if r.returncode == 2:
        print(r.stdout[-1500:], r.stderr[-1500:])
finally:
    shutil.rmtree(tmp, ignore_errors=True)
