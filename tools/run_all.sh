#!/bin/bash
# Runs the quick (or given) tier of every claimed check on /repo, one after another; prints one summary line each.
TIER="${1:-quick}"
cd "$(dirname "$0")/.."
for id in $(/venv/bin/python -c "import json; print(' '.join(c['property_id'] for c in json.load(open('MANIFEST.json'))['checks']))"); do
  start=$(date +%s)
  out=$(./check $id --tier $TIER 2>&1); rc=$?
  echo "$id rc=$rc $(( $(date +%s) - start ))s :: $(echo "$out" | grep -E "^$id tier" | tail -1)"
  echo "$out" | grep -E "^VIOLATION|^HARNESS" | head -5
done
