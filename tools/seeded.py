#!/venv/bin/python
"""Run a property's quick check against a scratch copy of /repo with the seeded change applied:
   tools/seeded.py <ID> [seed-dir-name] [extra ./check args]   (default seed dir = seeded/<ID>)
Prints the VIOLATION lines and CAUGHT / MISSED; removes the copy."""
import os, shutil, subprocess, sys, tempfile
pid = sys.argv[1]
name = sys.argv[2] if len(sys.argv) > 2 and not sys.argv[2].startswith('-') else pid
extra = [a for a in sys.argv[2:] if a != name]
here = os.path.dirname(os.path.dirname(os.path.abspath(__file__)))
patch = os.path.join(here, 'seeded', name, 'patch.diff')
tmp = tempfile.mkdtemp(prefix='holpy-seeded-%s-' % pid)
try:
    dst = os.path.join(tmp, 'repo')
    shutil.copytree('/repo', dst, ignore=shutil.ignore_patterns('.git', '__pycache__', 'node_modules'))
    r = subprocess.run(['patch', '-p1', '-s', '-i', patch], cwd=dst, capture_output=True, text=True)
    if r.returncode != 0:
        print('SEED-ERROR: patch does not apply:', r.stdout, r.stderr); sys.exit(2)
    env = dict(os.environ, VERIF_REPO=dst, VERIF_OUT_DIR=os.path.join(tmp, 'out'))
    r = subprocess.run([os.path.join(here, 'check'), pid, '--tier', 'quick'] + extra, env=env, capture_output=True, text=True)
    for l in r.stdout.splitlines():
        if l.startswith(('VIOLATION', 'KNOWN', 'HARNESS', pid)) or l.strip().startswith('signature'):
            print(l)
    print('exit', r.returncode, '=> seeded change', 'CAUGHT' if r.returncode == 1 else 'MISSED' if r.returncode == 0 else 'ERROR')
finally:
    shutil.rmtree(tmp, ignore_errors=True)
