#!/venv/bin/python
"""Regenerates /verif/MANIFEST.json from the table below (one entry per property
whose check is built and has been run quiet on the unchanged tree)."""
import json
import os
import sys

VERIF = os.path.dirname(os.path.dirname(os.path.abspath(__file__)))

# id -> (technique, level text, level note, design section)
CLAIMED = {
    'C15': (
        'exhaustive enumeration of small CNFs + Hypothesis random CNFs/formulas against brute-force satisfiability, '
        'an independent resolution-trace replayer and an equisatisfiability oracle',
        'Exploration. Every ordered CNF over 2 variables (<=3/4 clauses) and 3 variables (<=2/3 clauses) with clauses '
        'that are multisets of <=3 literals is enumerated completely, plus tens of thousands of random CNFs up to 12 '
        'variables / 60 clauses; each verdict is compared with brute force, each model is substituted, each '
        'unsatisfiability trace is replayed by an independent resolution checker, and each call runs under a timer. '
        'Tseitin encodings of generated formulas are checked by the kernel and compared for equisatisfiability. '
        'This decides the property on the bounded domain and samples it beyond; it is not a proof for all CNFs.',
        'Trusted: the brute-force evaluator and trace replayer in props/c15_sat.py (self-tested at start), the kernel '
        'checker for the Tseitin theorem. sat/zchaff.py (external binary) is not covered.',
        'DESIGN.md §2 C15'),
    'C01': (
        'Hypothesis-driven derivation builder over the 15 primitive rules; every accepted line evaluated in finite '
        'standard models by an independent evaluator (counter-model search) and type-checked by a reference checker',
        'Exploration. Thousands of proof scripts of 3-12 (quick) / 3-22 (thorough) accepted primitive steps with fitted '
        'and adversarial arguments are run through theory.check_proof(no_gaps=True); every intermediate and final '
        'sequent must type-check in the reference calculus and survive a search for a refuting finite standard model '
        '(type variables of size <=2, thorough <=3; all assignments of free and schematic variables up to 20000, '
        'sampled beyond). A refuting model is a certain counterexample to validity; absence of one is not a proof.',
        'Trusted: vlib/ref.py and vlib/model.py (self-tested on all logic_base theorems and on known-invalid sequents at '
        'start). Finite models only; Some/The by one admissible choice function.',
        'DESIGN.md §2 C01'),
    'C02': (
        'enumeration of small proof shapes + Hypothesis random/fitted proof objects and extension pairs against a '
        'position-based reference judge and a finite-model validity oracle',
        'Exploration. Proof objects are built directly (lying identifiers, forward/circular/into-block citations, '
        'stated sequents weaker/stronger/different, placeholders at every depth including inside macro expansions) and '
        'given to theory.check_proof with gaps allowed and disallowed; acceptance must imply acceptance by the reference '
        'judge with the same final sequent and the same gap multiset, and a gap-free acceptance must yield a sequent '
        'valid in finite models. Theory.checked_extend is checked on (statement, proof) pairs. Bounded enumeration of '
        'tiny shapes is complete in the thorough tier; beyond that the search is random.',
        'Trusted: the reference judge in props/c02_checker.py (self-tested), single-step rule functions of the kernel '
        '(their soundness is C01), vlib/model.py. compute_only mode is out of scope.',
        'DESIGN.md §2 C02'),
    'C03': (
        'Hypothesis pairs / triples / operation cases / creation-and-GC histories against an independent named-term '
        'lambda calculus (alpha-equivalence, capture-avoiding substitution, beta normal form) and finite-model denotations',
        'Exploration. ==, hash, fast_compare, copy and Term(...) are compared with reference alpha-equivalence on '
        'near-miss pairs; histories of construction, parsing, copying, dropping, garbage collection and allocation bursts '
        'are interpreted step by step with the verdict of every comparison checked against snapshots; subst_type, subst, '
        'Lambda, subst_bound, beta_conv, beta_norm, incr_boundvars are compared with the reference implementation, typed, '
        'and evaluated in finite models.',
        'Trusted: vlib/ref.py, vlib/model.py (self-tested). Address reuse is CPython-specific.',
        'DESIGN.md §2 C03'),
}

NOT_YET = {
}


def main():
    props = [json.loads(l) for l in open(os.path.join(VERIF, 'properties.jsonl'))]
    checks = []
    na = []
    for p in props:
        pid = p['id']
        if pid in CLAIMED:
            tech, text, note, ref = CLAIMED[pid]
            checks.append({
                'property_id': pid,
                'quick_cmd': './check %s --tier quick' % pid,
                'thorough_cmd': './check %s --tier thorough' % pid,
                'evidence_file': 'evidence/%s.json' % pid,
                'replay_cmd_template': './check %s --replay {path}' % pid,
                'engine': 'holpy-pbt',
                'level_claimed': {'category': 'exploration', 'text': text, 'design_ref': ref},
                'level_note': note,
                'technique': tech,
            })
        else:
            na.append({'property_id': pid,
                       'reason': NOT_YET.get(pid, 'check not built yet in this revision (planned, see DESIGN.md §2 %s); '
                                                  'nothing is claimed for it' % pid)})
    man = {
        'version': 1,
        'setup_cmd': '/venv/bin/python -c "import hypothesis" 2>/dev/null || /venv/bin/pip install -q --no-index '
                     '--find-links /opt/veriftools/wheels hypothesis',
        'hooks': {
            'guard': 'BZHAN_HOLPY_VERIF',
            'enable': 'no source hooks are needed: checks import /repo unmodified (./check exports BZHAN_HOLPY_VERIF=1, '
                      'which nothing in /repo reads)',
            'baseline_off_cmd': '/verif/tools/baseline.sh',
            'source_commits': [],
            'add_only': True,
        },
        'engines': [{
            'name': 'holpy-pbt', 'path': 'vlib/',
            'serves_properties': [c['property_id'] for c in checks],
            'kind_free_text': 'Hypothesis 6.168 property-based testing (given + rule-based state machines), exhaustive '
                              'enumeration of small finite domains over 16 processes, independent executable oracles, '
                              'JSON replay files with a structural shrinker',
        }],
        'checks': checks,
        'not_applicable': na,
        'notes': 'Single entry point ./check <ID> [--tier quick|thorough] [--replay FILE]; seeds from VERIF_SEED; '
                 'known findings in known_findings.json; shrunk failures in replays/<ID>/; fixed-defect regressions in '
                 'regressions/<ID>/ (re-run first by every check).',
    }
    with open(os.path.join(VERIF, 'MANIFEST.json'), 'w') as f:
        json.dump(man, f, indent=1)
    import jsonschema
    jsonschema.validate(man, json.load(open('/root/.vp/MANIFEST.schema.json')))
    print('MANIFEST.json: %d checks, %d not_applicable' % (len(checks), len(na)))
    for c in checks:
        ev = os.path.join(VERIF, c['evidence_file'])
        if os.path.exists(ev):
            jsonschema.validate(json.load(open(ev)), json.load(open('/root/.vp/EVIDENCE.schema.json')))
        else:
            print('  (no evidence file yet for %s)' % c['property_id'])


if __name__ == '__main__':
    main()
