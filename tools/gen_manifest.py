#!/venv/bin/python
"""Regenerates /verif/MANIFEST.json from the table below (one entry per property
whose check is built and has been run quiet on the unchanged tree)."""
import json
import os
import sys

VERIF = os.path.dirname(os.path.dirname(os.path.abspath(__file__)))

# id -> (technique, level text, level note, design section)
CLAIMED = {
    'C15': (
        'exhaustive enumeration of small CNFs + Hypothesis random CNFs/formulas against brute-force satisfiability, '
        'an independent resolution-trace replayer and an equisatisfiability oracle',
        'Exploration. Every ordered CNF over 2 variables (<=3/4 clauses) and 3 variables (<=2/3 clauses) with clauses '
        'that are multisets of <=3 literals is enumerated completely, plus tens of thousands of random CNFs up to 12 '
        'variables / 60 clauses; each verdict is compared with brute force, each model is substituted, each '
        'unsatisfiability trace is replayed by an independent resolution checker, and each call runs under a timer. '
        'Tseitin encodings of generated formulas are checked by the kernel and compared for equisatisfiability. '
        'This decides the property on the bounded domain and samples it beyond; it is not a proof for all CNFs.',
        'Trusted: the brute-force evaluator and trace replayer in props/c15_sat.py (self-tested at start), the kernel '
        'checker for the Tseitin theorem. sat/zchaff.py (external binary) is not covered.',
        'DESIGN.md §2 C15'),
}

NOT_YET = {
}


def main():
    props = [json.loads(l) for l in open(os.path.join(VERIF, 'properties.jsonl'))]
    checks = []
    na = []
    for p in props:
        pid = p['id']
        if pid in CLAIMED:
            tech, text, note, ref = CLAIMED[pid]
            checks.append({
                'property_id': pid,
                'quick_cmd': './check %s --tier quick' % pid,
                'thorough_cmd': './check %s --tier thorough' % pid,
                'evidence_file': 'evidence/%s.json' % pid,
                'replay_cmd_template': './check %s --replay {path}' % pid,
                'engine': 'holpy-pbt',
                'level_claimed': {'category': 'exploration', 'text': text, 'design_ref': ref},
                'level_note': note,
                'technique': tech,
            })
        else:
            na.append({'property_id': pid,
                       'reason': NOT_YET.get(pid, 'check not built yet in this revision (planned, see DESIGN.md §2 %s); '
                                                  'nothing is claimed for it' % pid)})
    man = {
        'version': 1,
        'setup_cmd': '/venv/bin/python -c "import hypothesis" 2>/dev/null || /venv/bin/pip install -q --no-index '
                     '--find-links /opt/veriftools/wheels hypothesis',
        'hooks': {
            'guard': 'BZHAN_HOLPY_VERIF',
            'enable': 'no source hooks are needed: checks import /repo unmodified (./check exports BZHAN_HOLPY_VERIF=1, '
                      'which nothing in /repo reads)',
            'baseline_off_cmd': '/verif/tools/baseline.sh',
            'source_commits': [],
            'add_only': True,
        },
        'engines': [{
            'name': 'holpy-pbt', 'path': 'vlib/',
            'serves_properties': [c['property_id'] for c in checks],
            'kind_free_text': 'Hypothesis 6.168 property-based testing (given + rule-based state machines), exhaustive '
                              'enumeration of small finite domains over 16 processes, independent executable oracles, '
                              'JSON replay files with a structural shrinker',
        }],
        'checks': checks,
        'not_applicable': na,
        'notes': 'Single entry point ./check <ID> [--tier quick|thorough] [--replay FILE]; seeds from VERIF_SEED; '
                 'known findings in known_findings.json; shrunk failures in replays/<ID>/; fixed-defect regressions in '
                 'regressions/<ID>/ (re-run first by every check).',
    }
    with open(os.path.join(VERIF, 'MANIFEST.json'), 'w') as f:
        json.dump(man, f, indent=1)
    import jsonschema
    jsonschema.validate(man, json.load(open('/root/.vp/MANIFEST.schema.json')))
    print('MANIFEST.json: %d checks, %d not_applicable' % (len(checks), len(na)))
    for c in checks:
        ev = os.path.join(VERIF, c['evidence_file'])
        if os.path.exists(ev):
            jsonschema.validate(json.load(open(ev)), json.load(open('/root/.vp/EVIDENCE.schema.json')))
        else:
            print('  (no evidence file yet for %s)' % c['property_id'])


if __name__ == '__main__':
    main()
