#!/venv/bin/python
"""Regenerates /verif/MANIFEST.json from the table below (one entry per property
whose check is built and has been run quiet on the unchanged tree)."""
import json
import os
import sys

VERIF = os.path.dirname(os.path.dirname(os.path.abspath(__file__)))

# id -> (technique, level text, level note, design section)
CLAIMED = {
    'C15': (
        'exhaustive enumeration of small CNFs + Hypothesis random CNFs/formulas against brute-force satisfiability, '
        'an independent resolution-trace replayer and an equisatisfiability oracle',
        'Exploration. Every ordered CNF over 2 variables (<=3/4 clauses) and 3 variables (<=2/3 clauses) with clauses '
        'that are multisets of <=3 literals is enumerated completely, plus tens of thousands of random CNFs up to 12 '
        'variables / 60 clauses; each verdict is compared with brute force, each model is substituted, each '
        'unsatisfiability trace is replayed by an independent resolution checker, and each call runs under a timer. '
        'Tseitin encodings of generated formulas are checked by the kernel and compared for equisatisfiability. '
        'This decides the property on the bounded domain and samples it beyond; it is not a proof for all CNFs.',
        'Trusted: the brute-force evaluator and trace replayer in props/c15_sat.py (self-tested at start), the kernel '
        'checker for the Tseitin theorem. sat/zchaff.py (external binary) is not covered.',
        'DESIGN.md §2 C15'),
    'C01': (
        'Hypothesis-driven derivation builder over the 15 primitive rules; every accepted line evaluated in finite '
        'standard models by an independent evaluator (counter-model search) and type-checked by a reference checker',
        'Exploration. Thousands of proof scripts of 3-12 (quick) / 3-22 (thorough) accepted primitive steps with fitted '
        'and adversarial arguments are run through theory.check_proof(no_gaps=True); every intermediate and final '
        'sequent must type-check in the reference calculus and survive a search for a refuting finite standard model '
        '(type variables of size <=2, thorough <=3; all assignments of free and schematic variables up to 20000, '
        'sampled beyond). A refuting model is a certain counterexample to validity; absence of one is not a proof.',
        'Trusted: vlib/ref.py and vlib/model.py (self-tested on all logic_base theorems and on known-invalid sequents at '
        'start). Finite models only; Some/The by one admissible choice function.',
        'DESIGN.md §2 C01'),
    'C02': (
        'enumeration of small proof shapes + Hypothesis random/fitted proof objects and extension pairs against a '
        'position-based reference judge and a finite-model validity oracle',
        'Exploration. Proof objects are built directly (lying identifiers, forward/circular/into-block citations, '
        'stated sequents weaker/stronger/different, placeholders at every depth including inside macro expansions) and '
        'given to theory.check_proof with gaps allowed and disallowed; acceptance must imply acceptance by the reference '
        'judge with the same final sequent and the same gap multiset, and a gap-free acceptance must yield a sequent '
        'valid in finite models. Theory.checked_extend is checked on (statement, proof) pairs. Bounded enumeration of '
        'tiny shapes is complete in the thorough tier; beyond that the search is random.',
        'Trusted: the reference judge in props/c02_checker.py (self-tested), single-step rule functions of the kernel '
        '(their soundness is C01), vlib/model.py. compute_only mode is out of scope.',
        'DESIGN.md §2 C02'),
    'C03': (
        'Hypothesis pairs / triples / operation cases / creation-and-GC histories against an independent named-term '
        'lambda calculus (alpha-equivalence, capture-avoiding substitution, beta normal form) and finite-model denotations',
        'Exploration. ==, hash, fast_compare, copy and Term(...) are compared with reference alpha-equivalence on '
        'near-miss pairs; histories of construction, parsing, copying, dropping, garbage collection and allocation bursts '
        'are interpreted step by step with the verdict of every comparison checked against snapshots; subst_type, subst, '
        'Lambda, subst_bound, beta_conv, beta_norm, incr_boundvars are compared with the reference implementation, typed, '
        'and evaluated in finite models.',
        'Trusted: vlib/ref.py, vlib/model.py (self-tested). Address reuse is CPython-specific.',
        'DESIGN.md §2 C03'),
    'C04': (
        'differential testing of macro.eval against the checked macro.expand on argument/premise triples harvested from '
        'replayed library proofs, on their mutations, and on generated calls (nat macros at several numeric types; '
        'apply_theorem_for with higher-order instantiations from a lambda-term grammar)',
        'Exploration. Every macro step of the final proof of (a sample of / all) library theorems with recorded steps is '
        're-run two ways in its own theory context: one-step evaluation, and expansion checked by theory.check_proof at the '
        'default trust level behind placeholder premises; mutated triples (premises permuted, dropped, duplicated, '
        'weakened, replaced; theorem names and term arguments replaced) probe inputs no recorded proof contains; 1600 '
        'generated apply_theorem_for calls instantiate every nat-theory theorem with a function-typed schematic variable. Covers '
        'the macros the library uses (18 in the quick corpus); others are uncovered and listed in the evidence.',
        'Both paths are the repository\'s own code (differential oracle); comparison of sequents by the independent '
        'alpha-equivalence of vlib/ref.py. Inputs on which no expansion is produced are outside the statement.',
        'DESIGN.md §2 C04, §5'),
    'C08': (
        'Hypothesis-generated erasures of well-typed terms (and ill-typed skeletons) checked by a validity predicate '
        '(reference type checker, shape, annotations, instances) and by the inverse (recover the original)',
        'Exploration. Thousands of skeletons over the signatures of theories list and real, built with None type fields '
        'exactly as the parser builds them under drawn erasure masks and variable contexts; every returned term is '
        'type-checked by the reference calculus, compared in shape and annotations with the skeleton, checked for '
        'constants at instances of their declared types and for leftover internal type variables, and compared with the '
        'original term when the skeleton is an erasure; failures must be TypeInferenceException/TheoryException.',
        'Trusted: vlib/ref.py typing, vlib/libsig.py (declared instances of overloaded constants).',
        'DESIGN.md §2 C08'),
    'C09': (
        'Hypothesis-generated (pattern, target, seed) triples with targets constructed by instantiating the pattern in an '
        'independent calculus; returned instantiations applied and compared modulo beta-eta by the reference calculus',
        'Exploration. First-order, Miller, repeated, polymorphic, heuristic-branch and seeded patterns against targets that '
        'are exact instances, beta-normalised instances, one-point mutations, unrelated terms and terms of another type; a '
        'successful match must instantiate the pattern to the target (reference beta-eta normal forms), extend the seed '
        'and leave the caller\'s object untouched; first-order matching must succeed on exact instances.',
        'Trusted: vlib/ref.py (substitution, beta/eta normal forms; self-tested).',
        'DESIGN.md §2 C09'),
    'C13': (
        'Hypothesis-generated editing histories (recorded steps, search suggestions, perturbations; live state or copy) '
        'over ProofState with invariants checked after every completed operation',
        'Exploration. Walks start from library theorems with recorded proofs (theories from logic upwards), from 21 '
        'generated goals (suggestions and perturbations with small indices) and from a small corpus of hand-written '
        'walks that Hypothesis mutates; after every '
        'completed op a full re-check must succeed with gaps = sorry lines, the last line must be the original sequent, '
        'ids must equal positions and citations must name earlier visible lines, a complete proof must pass with gaps '
        'disallowed, export_proof/parse_proof must give identical exported lines and the same check result, and the '
        'fingerprints of all earlier copies must be unchanged.',
        'Trusted: the structural checks in vlib/edit_lib.py; the kernel checker for re-checks.',
        'DESIGN.md §2 C13, §5'),
    'C14': (
        'every entry of search_method on sampled (state, gap, facts) queries applied to a copy with open parameters '
        'supplied; effect compared with the advertisement',
        'Exploration. States are prefixes of recorded library proofs and generated goals, in a third of the cases '
        'followed by a short walk of editing operations; each returned suggestion must apply or ask for named '
        'parameters (never fail outright), leave only advertised goals open, close the gap when it advertises none, and '
        'produce the advertised facts.',
        'Trusted: parameter supply of vlib/edit_lib.py (fresh names, variables/numerals of the required type); failures '
        'with harness-supplied parameters are reported only after three different supplies fail.',
        'DESIGN.md §2 C14, §5'),
    'C17': (
        'exhaustive enumeration of short merge sequences + Hypothesis op lists (merge/test/explain interleavings, '
        'permutations) against a naive congruence-closure fixpoint, an explanation replayer and the kernel checker',
        'Exploration. Every sequence of <=3 equations over 4 constants (quick) is enumerated with all queries; random op '
        'lists over 8 constants and the HOL wrapper over curried terms of depth <=3; test must agree with the naive closure '
        'after every step and be order-independent, explanations must replay from merged equations only, HOL proofs must '
        'be accepted with gaps disallowed, conclude the queried equation and use only merged equations as hypotheses.',
        'Trusted: the naive closure and replayer in props/c17_congc.py (cross-checked against z3 EUF at start).',
        'DESIGN.md §2 C17'),
    'C05': (
        'enumerated small goal shapes + Hypothesis goals for each level-0 arithmetic macro, truth decided by an independent '
        'exact / interval evaluator (vlib/arith.py)',
        'Exploration. Each of the ten macros the checker evaluates without expansion is invoked through a one-step kernel '
        'proof on >100000 enumerated and thousands of random goals (the same shape at nat, int and real; zero divisors, '
        'near-equal constants, irrational constants, foreign types); every returned sequent is evaluated under HOL '
        'semantics and only a sequent evaluated FALSE is a violation.',
        'Trusted: vlib/arith.py (exact rationals, quadratic surds, mpmath intervals at 60 digits; self-tested).',
        'DESIGN.md §2 C05'),
    'C06': (
        'Hypothesis goals in the translatable fragment; accepted goals refuted by an independent guard-correct z3 encoding '
        'whose models are validated by a three-valued HOL evaluator, plus bounded counter-model enumeration',
        'Exploration. Thousands of goals (about 70% accepted) through z3wrapper.solve, Z3Macro.eval and SymPyMacro; an '
        'accepted goal with a validated counter-model is a violation (soundness direction only).',
        'Trusted: vlib/c06_lib.py evaluator (models from z3 are validated by concrete evaluation before they count); '
        'z3 resource limits make unknown answers inconclusive.',
        'DESIGN.md §2 C06'),
    'C07': (
        'exhaustive operator-nesting ladder + Hypothesis terms, types, sequents, instantiations and proof items; oracle = '
        'parse(print(x)) equals x (independent alpha-equivalence and holpy ==) under every printer setting, and text '
        'printed after a drawn history compared with text printed by a never-used forked process',
        'Exploration. About 26 600 (frame, position, filler) pairs enumerate every table operator, binder, literal and '
        'notation at several type instances and arities in every argument position (ASCII, every third also Unicode), '
        'plus ~10 000 random deeper terms over the signatures of 9 theories, all 1 660 library statements, types, '
        'sequents, Inst / TyInst and ProofItems of all ten argument-signature kinds under unicode x highlight x '
        'line_length settings, and 540 history cases. The finite ladder is covered completely; beyond it the property '
        'is sampled, not proved.',
        'Trusted: vlib/ref.py alpha-equivalence, the domain validator of vlib/c07_lib.py (constants at declared '
        'instances), fork-per-print fresh processes as the history oracle. Inst objects with tyinst / var_inst have '
        'no concrete syntax and are not generated.',
        'DESIGN.md §2 C07'),
    'C10': (
        'Hypothesis (conversion, term) cases and canonicity pairs; results checked by the kernel, by holpy/ref equality '
        'of the left side, by eval/proof agreement and by semantic evaluation of both sides',
        'Exploration. ~8000 conversion cases over the rewriting combinators and the nat/int/real/propositional/function '
        'normalisers plus ~3000 pairs of rearrangements of one polynomial / member set for canonicity and idempotence.',
        'Trusted: vlib/arith.py, vlib/model.py, vlib/ref.py and the polynomial expander of vlib/c10_lib.py.',
        'DESIGN.md §2 C10'),
    'C11': (
        'all library items + Hypothesis-generated items (adversarial definitions) judged by a structural conservativity '
        'judge, an own type checker for extensions, and export/parse round trips',
        'Exploration. Every non-theorem item and a quarter of the theorem items of the 43 library files (all in thorough) '
        'plus ~3000 generated items of every kind are parsed in the theory state before them; accepted definitions must '
        'satisfy the conservativity conditions, all extensions must be well-typed over the extended signature, and '
        'export_json / get_display must parse back to an equal item.',
        'Trusted: the judge, signature model and type checker of vlib/c11_lib.py; terms outside the print/parse domain '
        '(property C07) make a round trip inconclusive.',
        'DESIGN.md §2 C11'),
    'C12': (
        'Hypothesis-generated process histories (imports of side-effecting modules, loads with limits, bogus limits, '
        'metadata reloads, in-place extension, file touch / insert / delete / add-import / cycle / broken-file edits on a '
        'private scratch copy) run in fresh subprocesses; the final and every intermediate load is compared with a '
        'structural dump produced by an independent reference loader in another fresh process',
        'Exploration. Quick: 26 fresh-process single loads (all 17 theories not above real plus a rotating third of the '
        'others) and 32 random histories following a shape plan; thorough: all 43 single loads (exhaustive over theory '
        'names) and 960 random histories. Limits cover none / start / any item, with items that share a name with an '
        'earlier item of another kind boosted. Equality of dumps (types, constants, theorems by structure, attributes, '
        'overloads) is decided per history; the space of histories is sampled.',
        'Trusted: RefLoader in vlib/c12_worker.py (reads the JSON files itself, DFS in listed order, items.parse_item '
        'for extensions; uses nothing of logic.basic; self-tested against a hand-written dump). The exception class of '
        'a reported cycle is recorded, not enforced. Worker timeouts are inconclusive.',
        'DESIGN.md §2 C12'),
    'C16': (
        'Hypothesis linear systems (random, planted, Farkas-boundary, slabs) through nine entry points; models checked '
        'by exact substitution, unsat claims refuted by validated z3 models and bounded brute force, proofs by the kernel',
        'Exploration. ~23000 systems with <=5 variables and <=8 rows over omega.solve_matrix, OmegaHOL, Simplex, strict '
        'Simplex, branch_and_bound and the proof-producing wrappers / macros.',
        'Trusted: exact Fraction substitution; z3 only as a source of candidate models that are validated by substitution.',
        'DESIGN.md §2 C16'),
    'C18': (
        'per-rule templates of correct veriT steps and mechanically derived near misses; accepted steps judged by truth '
        'tables / an independent z3 encoding with validated counter-models',
        'Exploration. 150 correct and 450 near-miss instances for each of the 85 registered verit_* macros plus generated '
        'refutations through ProofReconstruction.validate; an accepted step whose clause is not a consequence of its '
        'premises (or that drops premise hypotheses) is a violation. Rules with no accepted instance are listed in the '
        'evidence and not claimed.',
        'Trusted: the IR, evaluator and z3 encoding of vlib/c18_lib.py (counter-models validated by evaluation).',
        'DESIGN.md §2 C18'),
    'C19': (
        'replay of every recorded calculation step + Hypothesis rule applications, compared numerically by an independent '
        'Expr -> mpmath evaluator at two precisions and several parameter draws',
        'Exploration. ~1200 recorded steps of the example files and ~2000 generated rule applications; deriv against '
        'numeric differentiation, normalize for value and idempotence, interval bounds against sampled values, print/parse '
        'round trips. A violation needs conclusive numerics at 30 and 50 digits and at two parameter draws.',
        'Trusted: vlib/c19_lib.py (quadrature with error bounds, limits and sums accepted only when settled); everything '
        'else is inconclusive.',
        'DESIGN.md §2 C19'),
    'C20': (
        'Hypothesis while-programs with template and mutated invariants against a reference interpreter; VC strings against '
        'a reference reader and the repo parser; HOL-level eval_Sem / vcg theorems against the interpreter and the kernel; '
        'program texts through imperative/parser.py against an independent reading of the concrete syntax',
        'Exploration. ~6000 cases: loop-free wp(c,Q) in s iff Q in exec(c,s) on 30 states; programs with annotated loops: '
        'all VCs true on sampled and visited states (confirmed valid by z3 before a run counts against the property) implies '
        'every terminating run from a pre-state ends in a post-state; every shown VC / invariant / guard must mean the same as '
        'the computed object, its HOL form and its re-parse; eval_Sem final states equal the interpreter and its proofs check.',
        'Trusted: the interpreter, HOL evaluator and reference reader of vlib/c20_lib.py; z3 only confirms candidate '
        'violations (counter-models are re-evaluated).',
        'DESIGN.md §2 C20'),
}

NOT_YET = {
}


def main():
    props = [json.loads(l) for l in open(os.path.join(VERIF, 'properties.jsonl'))]
    checks = []
    na = []
    for p in props:
        pid = p['id']
        if pid in CLAIMED:
            tech, text, note, ref = CLAIMED[pid]
            checks.append({
                'property_id': pid,
                'quick_cmd': './check %s --tier quick' % pid,
                'thorough_cmd': './check %s --tier thorough' % pid,
                'evidence_file': 'evidence/%s.json' % pid,
                'replay_cmd_template': './check %s --replay {path}' % pid,
                'engine': 'holpy-pbt',
                'level_claimed': {'category': 'exploration', 'text': text, 'design_ref': ref},
                'level_note': note,
                'technique': tech,
            })
        else:
            na.append({'property_id': pid,
                       'reason': NOT_YET.get(pid, 'check not built yet in this revision (planned, see DESIGN.md §2 %s); '
                                                  'nothing is claimed for it' % pid)})
    man = {
        'version': 1,
        'setup_cmd': '/venv/bin/python -c "import hypothesis" 2>/dev/null || /venv/bin/pip install -q --no-index '
                     '--find-links /opt/veriftools/wheels hypothesis',
        'hooks': {
            'guard': 'BZHAN_HOLPY_VERIF',
            'enable': 'no source hooks are needed: checks import /repo unmodified (./check exports BZHAN_HOLPY_VERIF=1, '
                      'which nothing in /repo reads)',
            'baseline_off_cmd': '/verif/tools/baseline.sh',
            'source_commits': [],
            'add_only': True,
        },
        'engines': [{
            'name': 'holpy-pbt', 'path': 'vlib/',
            'serves_properties': [c['property_id'] for c in checks],
            'kind_free_text': 'Hypothesis 6.168 property-based testing (given + rule-based state machines), exhaustive '
                              'enumeration of small finite domains over 16 processes, independent executable oracles, '
                              'JSON replay files with a structural shrinker',
        }],
        'checks': checks,
        'not_applicable': na,
        'notes': 'Single entry point ./check <ID> [--tier quick|thorough] [--replay FILE]; seeds from VERIF_SEED; '
                 'known findings in known_findings.json; shrunk failures in replays/<ID>/; fixed-defect regressions in '
                 'regressions/<ID>/ (re-run first by every check).',
    }
    with open(os.path.join(VERIF, 'MANIFEST.json'), 'w') as f:
        json.dump(man, f, indent=1)
    import jsonschema
    jsonschema.validate(man, json.load(open('/root/.vp/MANIFEST.schema.json')))
    print('MANIFEST.json: %d checks, %d not_applicable' % (len(checks), len(na)))
    for c in checks:
        ev = os.path.join(VERIF, c['evidence_file'])
        if os.path.exists(ev):
            jsonschema.validate(json.load(open(ev)), json.load(open('/root/.vp/EVIDENCE.schema.json')))
        else:
            print('  (no evidence file yet for %s)' % c['property_id'])


if __name__ == '__main__':
    main()
