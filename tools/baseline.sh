#!/bin/bash
# Runs the repository's pinned test suite with the verification guard OFF and
# compares the set of passing tests with /root/.vp/BASELINE.json (stable_pass).
unset BZHAN_HOLPY_VERIF
OUT="${1:-/tmp/holpy-baseline-$$.xml}"
cd /repo || exit 2
/venv/bin/python -m pytest -ra -q -p no:cacheprovider --timeout=900 --continue-on-collection-errors --junitxml="$OUT" >/tmp/holpy-baseline-$$.log 2>&1
/venv/bin/python - "$OUT" <<'PY'
import json, sys
import xml.etree.ElementTree as ET
base = set(json.load(open('/root/.vp/BASELINE.json'))['stable_pass'])
passed = set()
for tc in ET.parse(sys.argv[1]).getroot().iter('testcase'):
    if not any(ch.tag in ('failure', 'error', 'skipped') for ch in tc):
        passed.add('%s::%s' % (tc.get('classname'), tc.get('name')))
missing = sorted(base - passed)
print('baseline: %d/%d stable tests pass' % (len(base & passed), len(base)))
for m in missing[:40]:
    print('  MISSING', m)
sys.exit(1 if missing else 0)
PY
rc=$?
rm -f "$OUT" /tmp/holpy-baseline-$$.log
# the suite writes scratch files into the tree; leave tracked files untouched
git -C /repo status --short | grep -v '^??' | head
exit $rc
