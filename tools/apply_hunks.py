#!/venv/bin/python
"""Apply a unified diff to /repo ONE HUNK PER COMMIT (each hunk is the repair of one defect).
   tools/apply_hunks.py <patch> <property-id> [--dry]
The commit subject names the enclosing class / function found by scanning upwards from the hunk."""
import re, subprocess, sys, os, tempfile
patch, pid = sys.argv[1], sys.argv[2]
dry = '--dry' in sys.argv
text = open(patch).read().splitlines(keepends=True)
files = []
cur = None
for l in text:
    if l.startswith('--- '):
        cur = {'old': l, 'new': None, 'hunks': []}
        files.append(cur)
    elif l.startswith('+++ ') and cur is not None and cur['new'] is None:
        cur['new'] = l
    elif l.startswith('@@') and cur is not None:
        cur['hunks'].append([l])
    elif cur is not None and cur['hunks'] and not l.startswith(('diff ', 'index ')):
        cur['hunks'][-1].append(l)
n = 0
for f in files:
    path = re.sub(r'^\+\+\+ b/', '', f['new']).split('\t')[0].strip()
    shift = 0
    for h in f['hunks']:
        m = re.match(r'@@ -(\d+)', h[0])
        start = int(m.group(1))
        src = open(os.path.join('/repo', path)).read().splitlines()
        ctx = '?'
        # locate by content: first context/removed line of the hunk
        pos = max(0, min(start + shift + 2, len(src) - 1))
        if not dry:
            shift += sum(1 for x in h[1:] if x.startswith('+')) - sum(1 for x in h[1:] if x.startswith('-'))
        names = []
        for i in range(pos, -1, -1):
            mm = re.match(r'^(\s*)(class|def)\s+(\w+)', src[i])
            if mm:
                if not names or len(mm.group(1)) < names[-1][0]:
                    names.append((len(mm.group(1)), mm.group(3)))
                if len(mm.group(1)) == 0:
                    break
        ctx = '.'.join(nm for _, nm in reversed(names)) or path
        added = [x[1:].strip() for x in h[1:] if x.startswith('+') and x[1:].strip()]
        removed = [x[1:].strip() for x in h[1:] if x.startswith('-') and x[1:].strip()]
        with tempfile.NamedTemporaryFile('w', suffix='.diff', delete=False) as tf:
            tf.write(f['old']); tf.write(f['new']); tf.writelines(h)
            tname = tf.name
        r = subprocess.run(['patch', '-p1', '--dry-run' if dry else '--no-backup-if-mismatch', '-i', tname], cwd='/repo', capture_output=True, text=True)
        os.unlink(tname)
        if r.returncode != 0:
            print('FAILED hunk', path, h[0].strip(), r.stdout[-300:]); continue
        n += 1
        msg = 'fix: %s (%s)\n\nProperty %s: the check reported inputs on which this code accepted / produced a result that the\nproperty forbids (see /verif/known_findings.json).  Repair:\n' % (ctx, path, pid)
        for a in added[:6]:
            msg += '  + %s\n' % a[:110]
        for a in removed[:4]:
            msg += '  - %s\n' % a[:110]
        print(n, ctx)
        if not dry:
            subprocess.check_call(['git', '-C', '/repo', 'add', path])
            subprocess.check_call(['git', '-C', '/repo', 'commit', '-q', '-m', msg])
print('applied', n, 'hunks')
