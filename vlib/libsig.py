"""Signatures of library theories for the type-directed generator (vlib.gen).

sig_for(theory_name) loads the theory with logic.basic.load_theory and walks the parsed items of the theory and
its transitive imports; every Constant extension gives one entry.  Overloaded constants (zero, one, plus, ...)
are listed ONLY at their declared instances (nat/int/real ...), never at the general type, because a term that
uses an overloaded constant outside its declared instances is outside the domain of the properties.

Returns a dict:
  consts:   list of (name, jtype)        jtype polymorphic in ["tv", x]
  types:    dict type constructor -> arity
  theory:   the kernel Theory object (also left in kernel.theory.thy)
"""
from vlib import codec

_cache = {}


def sig_for(name, exclude=()):
    from logic import basic
    from kernel import theory
    key = (name, tuple(exclude))
    if key in _cache:
        theory.thy = _cache[key]['theory']
        return _cache[key]
    basic.load_theory(name)
    thy = theory.thy
    order = basic.get_import_order([name])
    general = {}
    instances = {}
    overloaded = set()
    for tname in order:
        content = basic.theory_cache['master'][tname]['content']
        for item in content:
            if item.error is not None:
                continue
            try:
                exts = item.get_extension()
            except Exception:
                continue
            for ext in exts:
                if ext.is_overload():
                    overloaded.add(ext.name)
                elif ext.is_constant():
                    T = codec.type_enc(ext.T)
                    if ext.name in overloaded and ext.name in general:
                        if T not in instances.setdefault(ext.name, []):
                            instances[ext.name].append(T)
                    else:
                        general[ext.name] = T
    consts = []
    for nm, T in general.items():
        if nm in exclude or nm.startswith('_'):
            continue
        if nm in overloaded:
            for Ti in instances.get(nm, []):
                consts.append((nm, Ti))
        else:
            consts.append((nm, T))
    # kernel primitives
    for nm, T in thy.get_data('term_sig').items():
        if nm in ('equals', 'implies', 'all') and nm not in general:
            consts.append((nm, codec.type_enc(T)))
    res = {'consts': consts, 'types': dict(thy.get_data('type_sig')), 'theory': thy,
           'overloaded': sorted(overloaded), 'instances': instances, 'general': general}
    _cache[key] = res
    return res


def numeral(T, n):
    """Canonical numeral of JSON type T (as kernel.term.Number builds it) for n >= 0."""
    NAT = ["tc", "nat"]
    if n == 0:
        return ["c", "zero", T]
    if n == 1:
        return ["c", "one", T]

    def binary(k):
        if k == 1:
            return ["c", "one", NAT]
        b = ["c", "bit0" if k % 2 == 0 else "bit1", codec.fun(NAT, NAT)]
        return ["app", b, binary(k // 2)]
    return ["app", ["c", "of_nat", codec.fun(NAT, T)], binary(n)]
