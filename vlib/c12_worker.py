"""C12 worker: executes ONE request in a fresh python process and prints a canonical dump.

    python c12_worker.py < request.json        (the parent puts the source root first on PYTHONPATH)

request (JSON on stdin):
  {"mode": "history",   "root": DIR, "ops": [OP, ...], "final": [theory, LIMIT]}
  {"mode": "reference", "root": DIR, "requests": [[theory, LIMIT], ...], "prelude": bool}

  LIMIT ::= null | "start" | [item_ty, item_name]
  OP    ::= ["import", module]
          | ["load", theory, LIMIT]              earlier load; its outcome is recorded, the history goes on
          | ["load_bogus", theory, [ty, name]]   limit that names no item of the theory: must raise
          | ["metadata"]                         basic.load_metadata()
          | ["extend", tag]                      extend the currently loaded theory object in place (theorem
                                                 c12_ext_<tag>, an attribute, constant c12_extc_<tag>)
          | ["touch", theory]                    new mtime, same content                       (scratch root only)
          | ["insert", theory, pos, tag]         insert axiom c12_marker_<tag> before item pos   (scratch root only)
          | ["delete", theory, pos]              delete item number pos (mod length)             (scratch root only)
          | ["restore", theory]                  original content, new mtime                     (scratch root only)
          | ["add_import", theory, other]        append `other` to the imports of `theory`       (scratch root only)
          | ["add_cycle", n]                     create theories c12cyc_0..n-1 importing each other in a ring
          | ["load_cycle", k]                    load c12cyc_k: must raise
          | ["remove_cycle"]
          | ["add_broken"] | ["add_broken", 1]   create theory c12broken (3rd item declares an existing constant | has an unknown kind)
          | ["load_broken"]                      must raise
          | ["remove_broken"]

The last line of stdout is  @@C12@@<json>.  'history' mode drives logic.basic (the code under test) and dumps
kernel.theory.thy after the final load.  'reference' mode never touches logic.basic's loader: it reads the JSON
files itself and extends a fresh Theory item by item (class RefLoader).  With "prelude": true it first imports
every module that registers macros or loads theories at import (PRELUDE); the dumps of all 43 library theories
are identical with and without it (parsing an item does not depend on registered macros), so the check runs the
reference without the prelude, which is four times cheaper.

The dump is structural (walks the public fields of Type / Term / Thm), so it does not depend on printer
settings, on term caches or on `_id`.
"""
import json
import os
import sys
import traceback

MARK = '@@C12@@'

# modules whose import registers macros / methods or loads theories as a side effect
PRELUDE = ['logic.logic', 'data.nat', 'data.set', 'data.function', 'data.list', 'data.expr', 'data.integer',
           'data.real', 'data.proplogic', 'prover.z3wrapper', 'imperative.imp', 'prover.omega', 'prover.simplex',
           'integral.inequality', 'syntax.parser', 'server.server']


# ------------------------------------------------------------------ structural dump
def d_type(T):
    if T.is_stvar():
        return "?'" + T.name
    if T.is_tvar():
        return "'" + T.name
    if T.is_tconst():
        if not T.args:
            return T.name
        return T.name + '(' + ','.join(d_type(a) for a in T.args) + ')'
    raise TypeError('d_type: %r' % (T,))


def d_term(t):
    """Iterative structural print of a term (no recursion limit issues)."""
    out = []
    stack = [t]
    while stack:
        x = stack.pop()
        if isinstance(x, str):
            out.append(x)
            continue
        if x.is_svar():
            out.append('?%s:%s' % (x.name, d_type(x.T)))
        elif x.is_var():
            out.append('%s:%s' % (x.name, d_type(x.T)))
        elif x.is_const():
            out.append('#%s:%s' % (x.name, d_type(x.T)))
        elif x.is_comb():
            stack.append(')')
            stack.append(x.arg)
            stack.append(' ')
            stack.append(x.fun)
            out.append('(')
        elif x.is_abs():
            stack.append(')')
            stack.append(x.body)
            out.append('(%%%s:%s. ' % (x.var_name, d_type(x.var_T)))
        elif x.is_bound():
            out.append('B%d' % x.n)
        else:
            raise TypeError('d_term')
    return ''.join(out)


def d_thm(th):
    return {'hyps': sorted(d_term(h) for h in th.hyps), 'prop': d_term(th.prop)}


def dump_theory(thy):
    data = thy.data
    res = {
        'type_sig': {str(k): v for k, v in data['type_sig'].items()},
        'term_sig': {str(k): d_type(T) for k, T in data['term_sig'].items()},
        'theorems': {str(k): d_thm(th) for k, th in data['theorems'].items()},
        'attributes': {str(k): list(v) for k, v in data['attributes'].items()},
        'overload': sorted(str(k) for k in data['overload']),
        'other_keys': sorted(k for k in data if k not in
                             ('type_sig', 'term_sig', 'theorems', 'theorems_svar', 'attributes', 'overload')),
    }
    # the svar cache, if filled, must agree with the theorems it caches
    stale = []
    for k, th in data['theorems_svar'].items():
        if k not in data['theorems']:
            stale.append(str(k))
    res['stale_svar'] = sorted(stale)
    return res


# ------------------------------------------------------------------ file helpers
def lib_file(root, name):
    return os.path.join(root, 'library', name + '.json')


def read_json(path):
    with open(path, encoding='utf-8') as f:
        return json.load(f)


class Files:
    """File-modifying ops; only ever inside a scratch root."""
    def __init__(self, root):
        self.root = root
        self.orig = {}
        self.clock = 0

    def check_scratch(self):
        real = os.path.realpath(self.root)
        if not real.startswith('/tmp/') or not os.path.exists(os.path.join(real, '.c12_scratch')):
            raise RuntimeError('file-modifying op outside a scratch root: %s' % self.root)

    def bump(self, path, old_mtime):
        """Give the file an mtime that differs from every earlier one (as an edit some seconds later would)."""
        self.clock += 1
        t = max(old_mtime, os.path.getmtime(path)) + 7 * self.clock
        os.utime(path, (t, t))

    def write(self, name, data):
        self.check_scratch()
        path = lib_file(self.root, name)
        old = os.path.getmtime(path) if os.path.exists(path) else 1.0e9
        if name not in self.orig and os.path.exists(path):
            with open(path, 'rb') as f:
                self.orig[name] = f.read()
        with open(path, 'w', encoding='utf-8') as f:
            json.dump(data, f, ensure_ascii=False)
        self.bump(path, old)

    def touch(self, name):
        self.check_scratch()
        path = lib_file(self.root, name)
        self.bump(path, os.path.getmtime(path))

    def restore(self, name):
        self.check_scratch()
        if name not in self.orig:
            self.touch(name)
            return
        path = lib_file(self.root, name)
        old = os.path.getmtime(path)
        with open(path, 'wb') as f:
            f.write(self.orig[name])
        self.bump(path, old)

    def remove(self, name):
        self.check_scratch()
        path = lib_file(self.root, name)
        if os.path.exists(path):
            os.remove(path)


def marker_item(tag):
    return {'ty': 'thm.ax', 'name': 'c12_marker_%s' % tag, 'vars': {'c12x': "'a"}, 'prop': 'c12x = c12x'}


def broken_theory(variant=0):
    if variant == 1:
        # the third item is of an unknown kind: parsing it raises in the middle of the load
        return {'name': 'c12broken', 'imports': ['logic_base'], 'description': 'third item has an unknown kind',
                'content': [
                    {'ty': 'thm.ax', 'name': 'c12_b1', 'vars': {'x': "'a"}, 'prop': 'x = x'},
                    {'ty': 'def.ax', 'name': 'c12_bc', 'type': 'bool'},
                    {'ty': 'c12.nosuchkind', 'name': 'c12_bx'},
                    {'ty': 'thm.ax', 'name': 'c12_b2', 'vars': {'x': "'a"}, 'prop': 'x = x'},
                ]}
    return {'name': 'c12broken', 'imports': ['logic_base'], 'description': 'third item redeclares a constant',
            'content': [
                {'ty': 'thm.ax', 'name': 'c12_b1', 'vars': {'x': "'a"}, 'prop': 'x = x'},
                {'ty': 'def.ax', 'name': 'c12_bc', 'type': 'bool'},
                {'ty': 'def.ax', 'name': 'c12_bc', 'type': 'bool'},
                {'ty': 'thm.ax', 'name': 'c12_b2', 'vars': {'x': "'a"}, 'prop': 'x = x'},
            ]}


# ------------------------------------------------------------------ history mode (code under test)
def exc_info(e):
    msg = getattr(e, 'str', None)
    if not isinstance(msg, str):
        msg = str(e)
    tb = traceback.extract_tb(e.__traceback__)
    where = ['%s:%d:%s' % (os.path.relpath(fr.filename), fr.lineno, fr.name) for fr in tb][-12:]
    return {'exc': type(e).__name__, 'msg': msg[:300], 'where': where}


def to_limit(limit):
    if limit is None or limit == 'start':
        return limit
    return (limit[0], limit[1])


LAZY = ['data.real', 'data.expr', 'prover.z3wrapper', 'imperative.imp', 'data.integer']


def run_history(req):
    root = req['root']
    files = Files(root)
    events = []
    from logic import basic
    from kernel import theory
    if not os.path.realpath(basic.__file__).startswith(os.path.realpath(root) + os.sep):
        raise RuntimeError('logic.basic imported from %s, expected root %s' % (basic.__file__, root))

    def attempt(fn):
        pre = [m for m in LAZY if m in sys.modules]
        try:
            fn()
            return {'status': 'ok', 'pre_modules': pre}
        except Exception as e:  # noqa
            r = exc_info(e)
            r.update(status='exception', pre_modules=pre)
            return r

    for op in req['ops']:
        kind = op[0]
        if kind == 'import':
            ev = attempt(lambda: __import__(op[1]))
        elif kind == 'load':
            ev = attempt(lambda: basic.load_theory(op[1], limit=to_limit(op[2])))
        elif kind == 'load_bogus':
            ev = attempt(lambda: basic.load_theory(op[1], limit=to_limit(op[2])))
        elif kind == 'metadata':
            ev = attempt(lambda: basic.load_metadata())
        elif kind == 'extend':
            def ext(tag=op[1]):
                # what app/ide.py does after load_theory: extend the loaded theory object in place
                from kernel import extension
                from kernel.thm import Thm
                from kernel.term import Var, Eq
                from kernel.type import TVar
                x = Var('c12x', TVar('a'))
                theory.thy.unchecked_extend([extension.Theorem('c12_ext_' + tag, Thm(Eq(x, x))),
                                             extension.Attribute('c12_ext_' + tag, 'hint_rewrite'),
                                             extension.Constant('c12_extc_' + tag, TVar('a'))])
            ev = attempt(ext)
        elif kind == 'touch':
            files.touch(op[1])
            ev = {'status': 'done'}
        elif kind == 'insert':
            data = read_json(lib_file(root, op[1]))
            pos = op[2] % (len(data['content']) + 1)
            data['content'].insert(pos, marker_item(op[3]))
            files.write(op[1], data)
            ev = {'status': 'done'}
        elif kind == 'delete':
            data = read_json(lib_file(root, op[1]))
            if data['content']:
                del data['content'][op[2] % len(data['content'])]
            files.write(op[1], data)
            ev = {'status': 'done'}
        elif kind == 'restore':
            files.restore(op[1])
            ev = {'status': 'done'}
        elif kind == 'add_import':
            data = read_json(lib_file(root, op[1]))
            if op[2] not in data['imports']:
                data['imports'].append(op[2])
            files.write(op[1], data)
            ev = {'status': 'done'}
        elif kind == 'add_cycle':
            n = max(1, int(op[1]))
            for i in range(n):
                files.write('c12cyc_%d' % i, {'name': 'c12cyc_%d' % i, 'imports': ['logic_base', 'c12cyc_%d' % ((i + 1) % n)],
                                              'description': '', 'content': [marker_item('cyc%d' % i)]})
            ev = {'status': 'done'}
        elif kind == 'load_cycle':
            ev = attempt(lambda: basic.load_theory('c12cyc_%d' % op[1]))
        elif kind == 'remove_cycle':
            for i in range(8):
                files.remove('c12cyc_%d' % i)
            ev = {'status': 'done'}
        elif kind == 'add_broken':
            files.write('c12broken', broken_theory(int(op[1]) if len(op) > 1 else 0))
            ev = {'status': 'done'}
        elif kind == 'load_broken':
            ev = attempt(lambda: basic.load_theory('c12broken'))
        elif kind == 'remove_broken':
            files.remove('c12broken')
            ev = {'status': 'done'}
        else:
            raise ValueError('unknown op %r' % (op,))
        events.append(ev)

    name, limit = req['final']
    fin = attempt(lambda: basic.load_theory(name, limit=to_limit(limit)))
    if fin['status'] == 'ok':
        fin['dump'] = dump_theory(theory.thy)
    return {'events': events, 'final': fin}


# ------------------------------------------------------------------ reference mode (oracle)
class RefLoader:
    """Reads library/*.json itself; for each theory, in DFS order of the listed imports, parses the items one by
    one in a fresh Theory that holds exactly the extensions of the theory's transitive imports, and keeps the
    extension lists.  No timestamps, no caches that can go stale (the process handles one file state), no lazy
    imports, no reliance on what theory.thy was before."""

    def __init__(self, root):
        self.root = root
        self.json = {}
        self.parsed = {}   # name -> list of (ty, name, error?, extension list or None)

    def data(self, name):
        if name not in self.json:
            self.json[name] = read_json(lib_file(self.root, name))
        return self.json[name]

    def order(self, names):
        """Transitive imports, depth first in listed order, each theory after its imports."""
        out = []
        path = []

        def dfs(n):
            if n in out:
                return
            if n in path:
                raise ValueError('cycle in imports: %s' % ' -> '.join(path + [n]))
            path.append(n)
            for m in self.data(n)['imports']:
                dfs(m)
            path.pop()
            out.append(n)
        for n in names:
            dfs(n)
        return out

    def context(self, name):
        """Fresh theory holding the transitive imports of `name`."""
        from kernel import theory
        deps = self.order(self.data(name)['imports'])
        for d in deps:
            self.parse(d)
        thy = theory.EmptyTheory()
        for d in deps:
            for (_, _, err, exts) in self.parsed[d]:
                if not err:
                    thy.unchecked_extend(exts)
        return thy

    def parse(self, name):
        if name in self.parsed:
            return self.parsed[name]
        from kernel import theory
        from server import items
        thy = self.context(name)
        res = []
        for raw in self.data(name)['content']:
            theory.thy = thy      # the parser reads the global theory
            item = items.parse_item(raw)
            if item.error is None:
                exts = item.get_extension()
                thy.unchecked_extend(exts)
                res.append((item.ty, item.name, False, exts))
            else:
                res.append((item.ty, item.name, True, None))
        self.parsed[name] = res
        return res

    def load(self, name, limit):
        from kernel import theory
        own = self.parse(name)
        thy = self.context(name)
        n_err = 0
        if limit != 'start':
            found = limit is None
            for (ty, nm, err, exts) in own:
                if limit is not None and ty == limit[0] and nm == limit[1]:
                    found = True
                    break
                if err:
                    n_err += 1
                else:
                    thy.unchecked_extend(exts)
            if not found:
                raise KeyError('limit %r names no item of %s' % (limit, name))
        theory.thy = thy
        return thy, n_err


def run_reference(req):
    root = req['root']
    if req.get('prelude', True):
        for m in PRELUDE:
            __import__(m)
    from kernel import theory
    import kernel
    if not os.path.realpath(kernel.__file__ if getattr(kernel, '__file__', None) else theory.__file__
                            ).startswith(os.path.realpath(root) + os.sep):
        raise RuntimeError('kernel imported from %s, expected root %s' % (theory.__file__, root))
    ref = RefLoader(root)
    results = []
    for name, limit in req['requests']:
        try:
            thy, n_err = ref.load(name, to_limit(limit))
            results.append({'status': 'ok', 'dump': dump_theory(thy), 'error_items': n_err,
                            'order': ref.order([name])})
        except Exception as e:  # noqa
            r = exc_info(e)
            r['status'] = 'exception'
            results.append(r)
    return {'results': results}


def main():
    req = json.load(sys.stdin)
    root = req['root']
    if sys.path[0] != root:
        sys.path.insert(0, root)
    real_stdout = sys.stdout
    sys.stdout = sys.stderr      # whatever the imported modules print must not disturb the protocol
    try:
        if req['mode'] == 'history':
            res = run_history(req)
        elif req['mode'] == 'reference':
            res = run_reference(req)
        else:
            raise ValueError('mode')
        res['worker'] = 'ok'
    except Exception as e:  # noqa   harness-level failure, reported as such
        res = {'worker': 'error', 'error': traceback.format_exc()[-3000:]}
    sys.stdout = real_stdout
    sys.stdout.write('\n' + MARK + json.dumps(res, sort_keys=True) + '\n')
    sys.stdout.flush()


if __name__ == '__main__':
    main()
