"""Independent reference lambda calculus (named terms).

Types:  ('tv', n) | ('stv', n) | ('tc', name, (args...))
Terms:  ('var', n, T) | ('svar', n, T) | ('bv', uid, T) | ('const', n, T) | ('app', f, a) | ('lam', uid, T, body, hint)
        ('loose', k)    a de Bruijn index escaping the outermost binder of the converted term

Nothing here uses holpy's _id, hashing, equality or de Bruijn arithmetic: holpy terms are converted by reading
their public fields once (from_term), and everything else (alpha-equivalence, capture-avoiding substitution,
type instantiation, beta/eta normal forms, typing, type matching) is implemented on the named form.
"""
import itertools

_uid = itertools.count(1)


class RefError(Exception):
    pass


# ------------------------------------------------------------------ conversion
def from_type(T):
    ty = T.ty
    if ty == 1:      # Type.TVAR
        return ('tv', T.name)
    if ty == 0:      # Type.STVAR
        return ('stv', T.name)
    return ('tc', T.name, tuple(from_type(a) for a in T.args))


def from_jtype(j):
    if j[0] in ('tv', 'stv'):
        return (j[0], j[1])
    return ('tc', j[1], tuple(from_jtype(a) for a in j[2:]))


def from_term(t, env=()):
    """holpy Term -> named term.  env: tuple of (uid, T) for enclosing binders (innermost first)."""
    ty = t.ty
    if ty == 0:
        return ('svar', t.name, from_type(t.T))
    if ty == 1:
        return ('var', t.name, from_type(t.T))
    if ty == 2:
        return ('const', t.name, from_type(t.T))
    if ty == 3:
        return ('app', from_term(t.fun, env), from_term(t.arg, env))
    if ty == 4:
        uid = next(_uid)
        T = from_type(t.var_T)
        return ('lam', uid, T, from_term(t.body, ((uid, T),) + env), t.var_name)
    if ty == 5:
        if t.n < len(env):
            uid, T = env[t.n]
            return ('bv', uid, T)
        return ('loose', t.n - len(env))
    raise RefError('unknown term kind')


def from_jterm(j, env=()):
    tag = j[0]
    if tag == 'v':
        return ('var', j[1], from_jtype(j[2]))
    if tag == 'sv':
        return ('svar', j[1], from_jtype(j[2]))
    if tag == 'c':
        return ('const', j[1], from_jtype(j[2]))
    if tag == 'app':
        return ('app', from_jterm(j[1], env), from_jterm(j[2], env))
    if tag == 'abs':
        uid = next(_uid)
        T = from_jtype(j[2])
        return ('lam', uid, T, from_jterm(j[3], ((uid, T),) + env), j[1])
    if tag == 'b':
        if j[1] < len(env):
            uid, T = env[j[1]]
            return ('bv', uid, T)
        return ('loose', j[1] - len(env))
    raise RefError('unknown json term')


# ------------------------------------------------------------------ types
BOOL = ('tc', 'bool', ())


def tfun(a, b):
    return ('tc', 'fun', (a, b))


def is_fun(T):
    return T[0] == 'tc' and T[1] == 'fun' and len(T[2]) == 2


def type_subst(T, sigma):
    """sigma: dict ('stv', n) / ('tv', n) -> type.  (holpy instantiates schematic type variables only;
    callers pass only stv keys to mirror that.)"""
    if T[0] != 'tc':
        return sigma.get(T, T)
    return ('tc', T[1], tuple(type_subst(a, sigma) for a in T[2]))


def type_match(pat, T, sigma, kinds=('stv',)):
    """One-way matching; variables of the listed kinds in `pat` are pattern variables."""
    if pat[0] in kinds:
        if pat in sigma:
            return sigma[pat] == T
        sigma[pat] = T
        return True
    if pat[0] != 'tc':
        return pat == T
    if T[0] != 'tc' or T[1] != pat[1] or len(T[2]) != len(pat[2]):
        return False
    return all(type_match(p, a, sigma, kinds) for p, a in zip(pat[2], T[2]))


def type_vars(T, acc):
    if T[0] != 'tc':
        acc.add(T)
    else:
        for a in T[2]:
            type_vars(a, acc)
    return acc


# ------------------------------------------------------------------ typing
def typeof(t):
    """Full type check; raises RefError when ill-typed or open."""
    tag = t[0]
    if tag in ('var', 'svar', 'const', 'bv'):
        return t[2]
    if tag == 'app':
        tf = typeof(t[1])
        ta = typeof(t[2])
        if not is_fun(tf):
            raise RefError('application of a non-function')
        if tf[2][0] != ta:
            raise RefError('argument type mismatch')
        return tf[2][1]
    if tag == 'lam':
        return tfun(t[2], typeof(t[3]))
    if tag == 'loose':
        raise RefError('open term')
    raise RefError('bad term')


def well_typed(t, T=None):
    try:
        ty = typeof(t)
    except RefError:
        return False
    return T is None or ty == T


def is_open(t):
    tag = t[0]
    if tag == 'loose':
        return True
    if tag == 'app':
        return is_open(t[1]) or is_open(t[2])
    if tag == 'lam':
        return is_open(t[3])
    return False


# ------------------------------------------------------------------ alpha equivalence
def alpha_eq(s, t):
    """Structural identity up to bound names, type annotations included."""
    return canon(s) == canon(t)


def canon(t, env=None, depth=0):
    """Canonical hashable form (de Bruijn levels computed here, independently)."""
    if env is None:
        env = {}
    tag = t[0]
    if tag in ('var', 'svar', 'const'):
        return t
    if tag == 'bv':
        return ('bv', depth - env[t[1]] - 1) if t[1] in env else ('fbv', t[1], t[2])
    if tag == 'loose':
        return ('loose', t[1])
    if tag == 'app':
        return ('app', canon(t[1], env, depth), canon(t[2], env, depth))
    env2 = dict(env)
    env2[t[1]] = depth
    return ('lam', t[2], canon(t[3], env2, depth + 1))


# ------------------------------------------------------------------ free variables / substitution
def free_vars(t, acc=None):
    """Free term variables: ('var'|'svar', name, T) and out-of-scope ('bv', uid, T)."""
    if acc is None:
        acc = set()
    tag = t[0]
    if tag in ('var', 'svar'):
        acc.add(t)
    elif tag == 'bv':
        acc.add(t)
    elif tag == 'app':
        free_vars(t[1], acc)
        free_vars(t[2], acc)
    elif tag == 'lam':
        inner = free_vars(t[3], set())
        inner.discard(('bv', t[1], t[2]))
        acc |= inner
    return acc


def all_type_vars(t, acc=None):
    if acc is None:
        acc = set()
    tag = t[0]
    if tag in ('var', 'svar', 'const', 'bv'):
        type_vars(t[2], acc)
    elif tag == 'app':
        all_type_vars(t[1], acc)
        all_type_vars(t[2], acc)
    elif tag == 'lam':
        type_vars(t[2], acc)
        all_type_vars(t[3], acc)
    return acc


def subst(t, sigma):
    """Capture-avoiding simultaneous substitution.  sigma maps variable atoms (('var', n, T), ('svar', n, T),
    ('bv', uid, T)) to terms.  Binders are renamed when they would capture."""
    tag = t[0]
    if tag in ('var', 'svar', 'bv'):
        return sigma.get(t, t)
    if tag in ('const', 'loose'):
        return t
    if tag == 'app':
        return ('app', subst(t[1], sigma), subst(t[2], sigma))
    # lam
    uid, T, body, hint = t[1], t[2], t[3], t[4]
    me = ('bv', uid, T)
    sig = {k: v for k, v in sigma.items() if k != me}
    fv = set()
    for v in sig.values():
        free_vars(v, fv)
    if me in fv:
        new = next(_uid)
        body = subst(body, {me: ('bv', new, T)})
        uid = new
    return ('lam', uid, T, subst(body, sig), hint)


def subst_by_name(t, svar_inst, var_inst=None):
    """Instantiate schematic variables (and free variables) by NAME, as holpy's Inst does."""
    var_inst = var_inst or {}
    sigma = {}
    for v in free_vars(t):
        if v[0] == 'svar' and v[1] in svar_inst:
            sigma[v] = svar_inst[v[1]]
        elif v[0] == 'var' and v[1] in var_inst:
            sigma[v] = var_inst[v[1]]
    return subst(t, sigma)


def subst_type_term(t, sigma):
    tag = t[0]
    if tag in ('var', 'svar', 'const', 'bv'):
        return (tag, t[1], type_subst(t[2], sigma))
    if tag == 'app':
        return ('app', subst_type_term(t[1], sigma), subst_type_term(t[2], sigma))
    if tag == 'lam':
        return ('lam', t[1], type_subst(t[2], sigma), subst_type_term(t[3], sigma), t[4])
    return t


# ------------------------------------------------------------------ normal forms
def beta_norm(t, fuel=None):
    """Normal-order beta normal form with fuel (RefError when exhausted)."""
    if fuel is None:
        fuel = [20000]

    def whnf_app(f, a):
        if f[0] == 'lam':
            fuel[0] -= 1
            if fuel[0] < 0:
                raise RefError('beta fuel exhausted')
            return norm(subst(f[3], {('bv', f[1], f[2]): a}))
        return ('app', f, a)

    def norm(t):
        tag = t[0]
        if tag == 'app':
            f = norm(t[1])
            a = norm(t[2])
            return whnf_app(f, a)
        if tag == 'lam':
            return ('lam', t[1], t[2], norm(t[3]), t[4])
        return t
    return norm(t)


def eta_norm(t):
    """Eta-contract everywhere: (%x. f x) -> f when x not free in f."""
    tag = t[0]
    if tag == 'app':
        return ('app', eta_norm(t[1]), eta_norm(t[2]))
    if tag == 'lam':
        body = eta_norm(t[3])
        me = ('bv', t[1], t[2])
        if body[0] == 'app' and body[2] == me and me not in free_vars(body[1]):
            return body[1]
        return ('lam', t[1], t[2], body, t[4])
    return t


def beta_eta_norm(t):
    prev = None
    cur = t
    for _ in range(50):
        cur = eta_norm(beta_norm(cur))
        c = canon(cur)
        if c == prev:
            break
        prev = c
    return cur


def beta_eta_eq(s, t):
    return canon(beta_eta_norm(s)) == canon(beta_eta_norm(t))


def size(t):
    tag = t[0]
    if tag == 'app':
        return 1 + size(t[1]) + size(t[2])
    if tag == 'lam':
        return 1 + size(t[3])
    return 1


def show_type(T):
    if T[0] == 'tv':
        return "'" + T[1]
    if T[0] == 'stv':
        return "?'" + T[1]
    if is_fun(T):
        a = show_type(T[2][0])
        if is_fun(T[2][0]):
            a = '(' + a + ')'
        return a + '=>' + show_type(T[2][1])
    if not T[2]:
        return T[1]
    return '(' + ','.join(show_type(a) for a in T[2]) + ')' + T[1]


def show(t):
    tag = t[0]
    if tag == 'var':
        return t[1]
    if tag == 'svar':
        return '?' + t[1]
    if tag == 'const':
        return t[1]
    if tag == 'bv':
        return '_%d' % t[1]
    if tag == 'loose':
        return ':B%d' % t[1]
    if tag == 'app':
        return '(%s %s)' % (show(t[1]), show(t[2]))
    return '(%%_%d::%s. %s)' % (t[1], show_type(t[2]), show(t[3]))


# ------------------------------------------------------------------ back to JSON (de Bruijn computed here)
def to_jtype(T):
    if T[0] in ('tv', 'stv'):
        return [T[0], T[1]]
    return ['tc', T[1]] + [to_jtype(a) for a in T[2]]


def to_jterm(t, env=()):
    """Named term -> JSON term (vlib.codec encoding).  env: tuple of binder uids, innermost first."""
    tag = t[0]
    if tag == 'var':
        return ['v', t[1], to_jtype(t[2])]
    if tag == 'svar':
        return ['sv', t[1], to_jtype(t[2])]
    if tag == 'const':
        return ['c', t[1], to_jtype(t[2])]
    if tag == 'app':
        return ['app', to_jterm(t[1], env), to_jterm(t[2], env)]
    if tag == 'lam':
        return ['abs', t[4] if isinstance(t[4], str) else 'x', to_jtype(t[2]), to_jterm(t[3], (t[1],) + env)]
    if tag == 'bv':
        if t[1] in env:
            return ['b', env.index(t[1])]
        raise RefError('out-of-scope bound variable')
    if tag == 'loose':
        return ['b', t[1] + len(env)]
    raise RefError('bad term')
