"""Support code for C07 (print -> parse round trip): name discipline, JSON term utilities, output flattening,
domain validation, the operator-ladder frames, and the fresh-process printing worker.

Run as a worker:   python -m vlib.c07_lib worker <theory>
  reads one JSON request per line on stdin, answers one JSON line on stdout.  Every request is served by a
  forked child of a process that has only imported holpy and loaded <theory> (it never prints or parses a term
  itself), so every answer is what a fresh process prints.
"""
import json
import os
import re
import sys

from vlib import codec
from vlib.codec import BOOL, fun, jt_strip, jt_subst, jt_match, jt_vars, jt_is_fun
from vlib.harness import CaseInvalid

NAT = ["tc", "nat"]
INT = ["tc", "int"]
REAL = ["tc", "real"]
CHAR = ["tc", "char"]
STRING = ["tc", "string"]
A = ["tv", "a"]
B = ["tv", "b"]


def tset(T):
    return ["tc", "set", T]


def tlist(T):
    return ["tc", "list", T]


# ---------------------------------------------------------------------------------------------- names
# tokens of the term grammar that look like identifiers
KEYWORDS = {'THE', 'SOME', 'if', 'then', 'else', 'INT', 'UN', 'Int', 'Un', 'O', 'Mem', 'Sub', 'DIV', 'MOD'}
NAME_RE = re.compile(r'^[A-Za-z][A-Za-z0-9_]*$')
POOL = ['x', 'y', 'z', 'a', 'b', 'f', 'g', 'h', 'm', 'n', 'p', 'q', 'u', 'v', 'w', 'k', 's', 't',
        'x1', 'y1', 'x2', 'A', 'B', 'P', 'Q', 'S', 'xs', 'ys']


def legal_name(nm, const_names=()):
    return isinstance(nm, str) and bool(NAME_RE.match(nm)) and nm not in KEYWORDS and nm not in const_names


# ---------------------------------------------------------------------------------------------- JSON term utilities
def C(name, T):
    return ["c", name, T]


def V(name, T):
    return ["v", name, T]


def app(f, *args):
    for a in args:
        f = ["app", f, a]
    return f


def strip_app(j):
    args = []
    while j[0] == 'app':
        args.append(j[2])
        j = j[1]
    args.reverse()
    return j, args


def abstract(body, name, T, depth=0):
    """JSON analogue of Term.abstract_over for the free variable (name, T)."""
    tag = body[0]
    if tag == 'v':
        return ["b", depth] if (body[1] == name and body[2] == T) else body
    if tag == 'app':
        return ["app", abstract(body[1], name, T, depth), abstract(body[2], name, T, depth)]
    if tag == 'abs':
        return ["abs", body[1], body[2], abstract(body[3], name, T, depth + 1)]
    return body


def lam(name, T, body, shown=None):
    """%name::T. body, binding the free variable (name, T) of body; `shown` is the suggested binder name."""
    return ["abs", shown or name, T, abstract(body, name, T)]


def free_atoms(j, acc=None):
    """[(tag, name, type)] of free (schematic) variables, first occurrence order."""
    if acc is None:
        acc = []
    tag = j[0]
    if tag in ('v', 'sv'):
        key = (tag, j[1], json.dumps(j[2]))
        if key not in [(a[0], a[1], json.dumps(a[2])) for a in acc]:
            acc.append((tag, j[1], j[2]))
    elif tag == 'app':
        free_atoms(j[1], acc)
        free_atoms(j[2], acc)
    elif tag == 'abs':
        free_atoms(j[3], acc)
    return acc


def binder_names(j, acc=None):
    if acc is None:
        acc = []
    if j[0] == 'app':
        binder_names(j[1], acc)
        binder_names(j[2], acc)
    elif j[0] == 'abs':
        acc.append(j[1])
        binder_names(j[3], acc)
    return acc


def const_occurrences(j, acc=None):
    if acc is None:
        acc = []
    if j[0] == 'c':
        acc.append((j[1], j[2]))
    elif j[0] == 'app':
        const_occurrences(j[1], acc)
        const_occurrences(j[2], acc)
    elif j[0] == 'abs':
        const_occurrences(j[3], acc)
    return acc


def has_loose(j, depth=0):
    tag = j[0]
    if tag == 'b':
        return j[1] >= depth
    if tag == 'app':
        return has_loose(j[1], depth) or has_loose(j[2], depth)
    if tag == 'abs':
        return has_loose(j[3], depth + 1)
    return False


def jsize(j):
    if j[0] == 'app':
        return 1 + jsize(j[1]) + jsize(j[2])
    if j[0] == 'abs':
        return 1 + jsize(j[3])
    return 1


def type_has_stvar(T):
    if T[0] == 'stv':
        return True
    if T[0] == 'tv':
        return False
    return any(type_has_stvar(a) for a in T[2:])


def all_types(j, acc):
    tag = j[0]
    if tag in ('v', 'sv', 'c'):
        acc.append(j[2])
    elif tag == 'app':
        all_types(j[1], acc)
        all_types(j[2], acc)
    elif tag == 'abs':
        acc.append(j[2])
        all_types(j[3], acc)
    return acc


def fix_names(js, pool=POOL):
    """Rename free variables of the JSON terms `js` (one shared name space) so that every name has ONE type
    (the parsing context maps a name to one type).  Variables and schematic variables have separate name spaces.
    Deterministic; bound names are left alone."""
    atoms = []
    for j in js:
        free_atoms(j, atoms)
    mapping = {}
    for tag in ('v', 'sv'):
        used = {}
        taken = set(a[1] for a in atoms if a[0] == tag)
        for (tg, nm, T) in atoms:
            if tg != tag:
                continue
            key = (tag, nm, json.dumps(T))
            if nm not in used:
                used[nm] = json.dumps(T)
                mapping[key] = nm
            elif used[nm] == json.dumps(T):
                mapping[key] = nm
            else:
                new = None
                for cand in pool:
                    if cand not in taken:
                        new = cand
                        break
                i = 0
                while new is None:
                    i += 1
                    cand = '%s_%d' % (nm, i)
                    if cand not in taken:
                        new = cand
                taken.add(new)
                used[new] = json.dumps(T)
                mapping[key] = new

    def ren(j):
        tag = j[0]
        if tag in ('v', 'sv'):
            return [tag, mapping[(tag, j[1], json.dumps(j[2]))], j[2]]
        if tag == 'app':
            return ["app", ren(j[1]), ren(j[2])]
        if tag == 'abs':
            return ["abs", j[1], j[2], ren(j[3])]
        return j
    return [ren(j) for j in js]


def rename_binders(j, names, mask=None):
    """Alpha-variant: the i-th binder (pre-order) gets names[i % len(names)] (only where mask[i % len(mask)] holds)."""
    counter = [0]

    def ren(j):
        if j[0] == 'abs':
            i = counter[0]
            counter[0] += 1
            nm = names[i % len(names)] if (not mask or mask[i % len(mask)]) else j[1]
            return ["abs", nm, j[2], ren(j[3])]
        if j[0] == 'app':
            return ["app", ren(j[1]), ren(j[2])]
        return j
    return ren(j)


def open_subterms(j, env=()):
    """All subterms of j, closed by replacing the bound variables of enclosing binders by free variables
    (name from the binder, made distinct).  Yields JSON terms."""
    out = []
    free = set(a[1] for a in free_atoms(j))

    def close(sub, env):
        # env: list of (name, T) innermost first, for indices >= local depth
        def rec(s, depth):
            tag = s[0]
            if tag == 'b':
                if s[1] >= depth:
                    nm, T = env[s[1] - depth]
                    return ["v", nm, T]
                return s
            if tag == 'app':
                return ["app", rec(s[1], depth), rec(s[2], depth)]
            if tag == 'abs':
                return ["abs", s[1], s[2], rec(s[3], depth + 1)]
            return s
        return rec(sub, 0)

    def walk(s, env):
        out.append(close(s, env))
        if s[0] == 'app':
            walk(s[1], env)
            walk(s[2], env)
        elif s[0] == 'abs':
            nm = s[1]
            taken = free | set(e[0] for e in env)
            base, i = nm, 0
            while nm in taken:
                i += 1
                nm = '%s_b%d' % (base, i)
            walk(s[3], [(nm, s[2])] + list(env))
    walk(j, [])
    return out


# ---------------------------------------------------------------------------------------------- domain validation
def validate_type(T, type_arity):
    if not isinstance(T, list) or not T:
        raise CaseInvalid('type')
    if T[0] == 'tv':
        if not (len(T) == 2 and isinstance(T[1], str) and re.match(r'^[a-z][a-z0-9]*$', T[1])):
            raise CaseInvalid('type variable name')
        return
    if T[0] != 'tc' or not isinstance(T[1], str):
        raise CaseInvalid('schematic or malformed type (out of domain)')
    if type_arity.get(T[1]) != len(T) - 2:
        raise CaseInvalid('unknown type constructor / arity: %r' % (T[1],))
    for a in T[2:]:
        validate_type(a, type_arity)


def validate_term(j, declared, type_arity, const_names, want_type=None):
    """Raise CaseInvalid unless j is in the domain of C07: closed w.r.t. de Bruijn indices, well-typed, every constant at
    an instance of a declared type, legal names, one type per free name, no schematic type variables."""
    from vlib import ref
    try:
        r = ref.from_jterm(j)
    except Exception:
        raise CaseInvalid('malformed term')
    if ref.is_open(r):
        raise CaseInvalid('loose bound variable')
    try:
        T = ref.typeof(r)
    except ref.RefError as e:
        raise CaseInvalid('ill-typed: %s' % e)
    if want_type is not None and T != ref.from_jtype(want_type):
        raise CaseInvalid('wrong type')
    for Ty in all_types(j, []):
        validate_type(Ty, type_arity)
    for nm, cT in const_occurrences(j):
        ok = False
        for dT in declared.get(nm, ()):
            if jt_match(dT, cT, {}):
                ok = True
                break
        if not ok:
            raise CaseInvalid('constant %s used outside its declared instances' % nm)
    seen = {}
    for tag, nm, Ty in free_atoms(j):
        if not legal_name(nm, const_names):
            raise CaseInvalid('illegal variable name %r' % (nm,))
        key = (tag, nm)
        if key in seen and seen[key] != json.dumps(Ty):
            raise CaseInvalid('variable %s at two types (out of domain)' % nm)
        seen[key] = json.dumps(Ty)
    for nm in binder_names(j):
        if not legal_name(nm, const_names):
            raise CaseInvalid('illegal bound name %r' % (nm,))
    return T


# ---------------------------------------------------------------------------------------------- printer output
class BadOutput(Exception):
    pass


def _seg_text(segs):
    out = []
    for s in segs:
        if not isinstance(s, dict) or not isinstance(s.get('text'), str):
            raise BadOutput('segment %r' % (s,))
        out.append(s['text'])
    return ''.join(out)


def flatten(out):
    """Printer output -> (text, lines or None).  str | [str] (lines) | [segment] | [[segment]] (lines of segments)."""
    if isinstance(out, str):
        return out, None
    if isinstance(out, list):
        if all(isinstance(x, str) for x in out) and out:
            return '\n'.join(out), list(out)
        if all(isinstance(x, dict) for x in out):
            return _seg_text(out), None
        if all(isinstance(x, list) for x in out) and out:
            lines = [_seg_text(l) for l in out]
            return '\n'.join(lines), lines
    raise BadOutput('unexpected printer output %r' % (out,))


def do_print(kind, obj, unicode, highlight, line_length):
    """Call the printer of /repo.  Returns (text, lines)."""
    from syntax import printer
    from syntax.settings import global_setting
    with global_setting(unicode=bool(unicode), highlight=bool(highlight), line_length=line_length):
        if kind == 'term':
            out = printer.print_term(obj)
        elif kind == 'type':
            out = printer.print_type(obj)
        elif kind == 'thm':
            out = printer.print_thm(obj)
        else:
            raise ValueError(kind)
    return flatten(out)


# ---------------------------------------------------------------------------------------------- pollution prefix
def context_of(js):
    """vars / svars dictionaries (name -> holpy Type) of the free variables of the JSON terms."""
    vs, svs = {}, {}
    for j in js:
        for tag, nm, T in free_atoms(j):
            (vs if tag == 'v' else svs)[nm] = codec.type_dec(T)
    return vs, svs


def run_prefix_ops(ops, main_th, t_obj, thys, check=None, note=None):
    """Execute the history prefix of a term case (see props/c07_roundtrip.py for the op format).
    thys: theory name -> kernel Theory object; check(theory, jterm) may raise CaseInvalid (op skipped);
    note(label) records an event.  Errors of the code under test are ignored (only the final print is judged).
    Returns the labels of the ops that ran.  Leaves kernel.theory.thy = thys[main_th]."""
    import contextlib
    import io
    from kernel import theory
    from kernel.term import Eq, Lambda
    from kernel.thm import Thm
    from kernel.type import BoolType
    from logic import context
    from syntax import parser
    from vlib.harness import Timeout
    ran = []
    for op in ops or []:
        if not isinstance(op, dict):
            raise CaseInvalid('prefix op')
        kind = op.get('op')
        uni = bool(op.get('unicode', False))
        hl = bool(op.get('highlight', False))
        ll = op.get('line_length')
        if not (ll is None or (isinstance(ll, int) and not isinstance(ll, bool) and 5 <= ll <= 200)):
            raise CaseInvalid('prefix line_length')
        try:
            if kind == 'print':
                th = op.get('theory', main_th)
                if th not in thys:
                    if note:
                        note('prefix-op-theory-not-available-skipped')
                    continue
                if check is not None:
                    try:
                        check(th, op.get('t'))
                    except CaseInvalid:
                        if note:
                            note('prefix-op-out-of-domain-skipped')
                        continue
                theory.thy = thys[th]
                pt = codec.term_dec(op['t'])
                text, lines = do_print('term', pt, uni, hl, ll)
                vs, svs = context_of([op['t']])
                with context.fresh_context(vars=vs, svars=svs), contextlib.redirect_stdout(io.StringIO()):
                    parser.parse_term(text)
                ran.append('print' + (':other-theory' if th != main_th else ''))
            elif kind == 'share':
                theory.thy = thys[main_th]
                how = op.get('how')
                if how == 'eq':
                    do_print('term', Eq(t_obj, t_obj), uni, hl, ll)
                elif how == 'sub':
                    stack = [t_obj]
                    while stack:
                        s = stack.pop()
                        if s.is_comb():
                            stack.extend([s.arg, s.fun])
                            if not s.arg.is_open():
                                do_print('term', s.arg, uni, hl, ll)
                elif how == 'lam':
                    fv = t_obj.get_vars()
                    if fv:
                        do_print('term', Lambda(fv[0], t_obj), uni, hl, ll)
                elif how == 'thm':
                    if t_obj.get_type() == BoolType:
                        do_print('thm', Thm(t_obj, t_obj), uni, hl, None)
                else:
                    raise CaseInvalid('share how')
                ran.append('share:' + str(how))
            else:
                raise CaseInvalid('prefix op kind')
        except CaseInvalid:
            raise
        except (Timeout, RecursionError):
            raise
        except Exception:
            if note:
                note('prefix-op-raised')
    theory.thy = thys[main_th]
    return ran


# ---------------------------------------------------------------------------------------------- operator ladder
TABLE_BINARY = ['equals', 'implies', 'conj', 'disj', 'plus', 'minus', 'power', 'times', 'real_divide', 'nat_divide',
                'nat_modulus', 'less_eq', 'less', 'greater_eq', 'greater', 'append', 'cons', 'member', 'subset', 'inter',
                'union', 'comp_fun']
TABLE_UNARY = ['neg', 'uminus', 'Union', 'Inter']
TABLE_OPS = TABLE_BINARY + TABLE_UNARY
BINDERS = ['all', 'exists', 'exists1', 'The', 'Some']
EXTRA_FUNS = ['Suc', 'of_nat', 'abs', 'card', 'length', 'insert', 'image', 'String', 'Char']

_NAMES_BY_TYPE = [
    (BOOL, ['p', 'q', 'r']), (NAT, ['m', 'n', 'k']), (INT, ['i', 'j', 'l']), (REAL, ['x', 'y', 'z']),
    (A, ['a', 'b', 'c']), (fun(NAT, NAT), ['f', 'g', 'h']), (tset(NAT), ['S', 'T', 'U']), (tlist(NAT), ['xs', 'ys', 'zs']),
    (tset(A), ['A', 'B', 'C']), (tlist(A), ['as', 'bs', 'cs']), (fun(NAT, BOOL), ['P', 'Q', 'R']),
]
def atom_name(T, i):
    """Name of the i-th atom of type T in ladder frames: one name per (type, position), so that a name has one type.
    A pure function of the type (no process-wide counter: shards must not influence each other)."""
    from vlib.harness import digest
    for Ty, names in _NAMES_BY_TYPE:
        if Ty == T and i < len(names):
            return names[i]
    h = digest(json.dumps(T)) % (36 ** 3)
    code = ''
    for _ in range(3):
        code = '0123456789abcdefghijklmnopqrstuvwxyz'[h % 36] + code
        h //= 36
    return 'w%s%s' % (code, 'abcdefgh'[i])


def atom(T, i):
    return V(atom_name(T, i), T)


class Frame:
    """A term constructor with typed holes.  build(args) -> JSON term."""
    __slots__ = ('label', 'cls', 'holes', 'res', 'builder', 'table')

    def __init__(self, label, cls, holes, res, builder, table=False):
        self.label = label
        self.cls = cls
        self.holes = holes
        self.res = res
        self.builder = builder
        self.table = table

    def build(self, args):
        return self.builder(args)

    def with_hole(self, pos, filler):
        args = [atom(T, i) for i, T in enumerate(self.holes)]
        args[pos] = filler
        return self.builder(args)

    def plain(self):
        return self.builder([atom(T, i) for i, T in enumerate(self.holes)])


def _instances(cT, universe, universe2):
    tvs = jt_vars(cT)
    if not tvs:
        return [cT]
    out = []
    if len(tvs) == 1:
        for U in universe:
            out.append(jt_subst(cT, {tvs[0]: U}))
    else:
        # several type variables: the diagonal instances and one mixed instance
        for U in universe2:
            out.append(jt_subst(cT, {tv: U for tv in tvs}))
        if len(universe2) >= 2:
            out.append(jt_subst(cT, {tv: universe2[i % len(universe2)] for i, tv in enumerate(tvs)}))
    return out


def build_frames(consts, type_arity, universe, universe2):
    """All frames over the constants `consts` [(name, declared jtype)] of a theory."""
    frames = []
    have = {}
    for nm, T in consts:
        have.setdefault(nm, []).append(T)

    def known(T):
        if T[0] == 'tv':
            return True
        if T[0] != 'tc' or type_arity.get(T[1]) != len(T) - 2:
            return False
        return all(known(a) for a in T[2:])
    universe = [U for U in universe if known(U)]
    universe2 = [U for U in universe2 if known(U)]

    # constants applied to k arguments
    for nm in TABLE_OPS + EXTRA_FUNS:
        for dT in have.get(nm, []):
            for inst in _instances(dT, universe, universe2):
                args, res = jt_strip(inst)
                declared_n = len(jt_strip(dT)[0])
                for k in range(1, min(len(args), declared_n + 1) + 1):
                    holes = args[:k]
                    rT = fun(*(args[k:] + [res]))
                    frames.append(Frame('%s/%d' % (nm, k), nm, holes, rT,
                                        (lambda a, nm=nm, inst=inst: app(C(nm, inst), *a)), table=nm in TABLE_OPS))
    # binders
    for nm in BINDERS:
        for dT in have.get(nm, []):
            for U in universe[:4]:
                inst = jt_subst(dT, {('tv', 'a'): U})
                res = jt_strip(inst)[1] if nm in ('all', 'exists', 'exists1') else U
                for clash in (False, True):
                    def b(a, nm=nm, inst=inst, U=U, clash=clash):
                        return app(C(nm, inst), lam(atom_name(U, 0), U, a[0], atom_name(U, 1) if clash else None))
                    frames.append(Frame(nm + ('/clash' if clash else ''), nm, [BOOL], res, b))
    # lambda
    for U in universe[:4]:
        for R in universe2 + [U]:
            for clash in (False, True):
                def b(a, U=U, clash=clash):
                    return lam(atom_name(U, 0), U, a[0], atom_name(U, 1) if clash else None)
                frames.append(Frame('lam' + ('/clash' if clash else ''), 'lam', [R], fun(U, R), b))
    # collect
    if 'collect' in have:
        for U in universe[:4]:
            if not known(tset(U)):
                continue
            for clash in (False, True):
                def b(a, U=U, clash=clash):
                    return app(C('collect', fun(fun(U, BOOL), tset(U))),
                               lam(atom_name(U, 0), U, a[0], atom_name(U, 1) if clash else None))
                frames.append(Frame('collect' + ('/clash' if clash else ''), 'collect', [BOOL], tset(U), b))
    # if-then-else
    if 'IF' in have:
        for U in universe:
            frames.append(Frame('if', 'if', [BOOL, U, U], U, lambda a, U=U: app(C('IF', fun(BOOL, U, U, U)), *a)))
    # applications of variables
    for U in universe:
        for R in universe2:
            frames.append(Frame('app', 'app', [fun(U, R), U], R, lambda a: app(a[0], a[1])))
    for U in universe2:
        frames.append(Frame('app2', 'app', [fun(U, U, U), U, U], U, lambda a: app(a[0], a[1], a[2])))
    # literal lists / sets
    if 'nil' in have and 'cons' in have:
        for U in universe:
            if not known(tlist(U)):
                continue
            for n in (1, 2):
                def b(a, U=U):
                    t = C('nil', tlist(U))
                    for x in reversed(a):
                        t = app(C('cons', fun(U, tlist(U), tlist(U))), x, t)
                    return t
                frames.append(Frame('list%d' % n, 'list-literal', [U] * n, tlist(U), b))
    if 'insert' in have and 'empty_set' in have:
        for U in universe:
            if not known(tset(U)):
                continue
            for n in (1, 2):
                def b(a, U=U):
                    t = C('empty_set', tset(U))
                    for x in reversed(a):
                        t = app(C('insert', fun(U, tset(U), tset(U))), x, t)
                    return t
                frames.append(Frame('set%d' % n, 'set-literal', [U] * n, tset(U), b))
    if 'nat_interval' in have:
        frames.append(Frame('interval', 'interval', [NAT, NAT], tset(NAT),
                            lambda a: app(C('nat_interval', fun(NAT, NAT, tset(NAT))), *a)))
    if 'fun_upd' in have:
        for U in universe2[:2]:
            for R in universe2[:2]:
                T = fun(fun(U, R), U, R, U, R)
                frames.append(Frame('fun_upd', 'fun_upd', [fun(U, R), U, R], fun(U, R),
                                    lambda a, T=T: app(C('fun_upd', T), *a)))
                frames.append(Frame('fun_upd/4', 'fun_upd', [fun(U, R), U, R, U], R,
                                    lambda a, T=T: app(C('fun_upd', T), *a)))
    return frames


def numeral(T, n):
    from vlib import libsig
    return libsig.numeral(T, n)


def binary(n):
    if n == 0:
        return C('zero', NAT)
    if n == 1:
        return C('one', NAT)
    return app(C('bit0' if n % 2 == 0 else 'bit1', fun(NAT, NAT)), binary(n // 2))


def mk_char(n):
    return app(C('Char', fun(NAT, CHAR)), binary(n))


def mk_list(T, elems):
    t = C('nil', tlist(T))
    for x in reversed(elems):
        t = app(C('cons', fun(T, tlist(T), tlist(T))), x, t)
    return t


def mk_string(s):
    return app(C('String', fun(tlist(CHAR), STRING)), mk_list(CHAR, [mk_char(ord(c)) for c in s]))


def atom_fillers(consts, type_arity, universe):
    """Closed atomic fillers [(label, cls, type, term)]: numerals, literals, nullary and bare constants."""
    have = {}
    for nm, T in consts:
        have.setdefault(nm, []).append(T)
    out = []
    for T in (NAT, INT, REAL):
        if T[1] not in type_arity or T not in have.get('zero', []):
            continue
        for n in (0, 1, 2, 3, 10):
            out.append(('num%d' % n, 'numeral', T, numeral(T, n)))
        if T != NAT and fun(T, T) in [jt_subst(d, {('tv', 'a'): T}) for d in have.get('uminus', [])]:
            out.append(('negnum', 'numeral-neg', T, app(C('uminus', fun(T, T)), numeral(T, 2))))
            out.append(('negone', 'numeral-neg', T, app(C('uminus', fun(T, T)), numeral(T, 1))))
        if T == REAL and 'real_divide' in have:
            out.append(('frac', 'numeral-frac', T, app(C('real_divide', fun(T, T, T)), numeral(T, 1), numeral(T, 2))))
            out.append(('negfrac', 'numeral-frac', T, app(C('uminus', fun(T, T)),
                                                          app(C('real_divide', fun(T, T, T)), numeral(T, 2), numeral(T, 3)))))
    if 'true' in have:
        out.append(('true', 'const', BOOL, C('true', BOOL)))
    for U in universe:
        if 'nil' in have and type_arity.get('list') == 1:
            out.append(('nil', 'list-literal', tlist(U), C('nil', tlist(U))))
        if 'empty_set' in have and type_arity.get('set') == 1:
            out.append(('empty_set', 'set-literal', tset(U), C('empty_set', tset(U))))
            if 'univ' in have:
                out.append(('univ', 'const', tset(U), C('univ', tset(U))))
    if 'Char' in have:
        out.append(('char', 'char', CHAR, mk_char(ord('a'))))
        out.append(('char_', 'char', CHAR, mk_char(ord('_'))))
        out.append(('string', 'string', STRING, mk_string('ab')))
    # bare table operators (used as arguments / applied later)
    for nm in TABLE_OPS:
        for dT in have.get(nm, []):
            for inst in _instances(dT, universe[:3], universe[:2]):
                out.append(('bare:' + nm, 'bare-operator', inst, C(nm, inst)))
    return out


def table_ops_in(j):
    """(number of table-operator applications, max nesting depth of table operators, binder count)."""
    def rec(j):
        # returns (count, depth, binders)
        if j[0] == 'abs':
            c, d, b = rec(j[3])
            return c, d, b + 1
        if j[0] != 'app':
            return 0, 0, 0
        head, args = strip_app(j)
        c = d = b = 0
        for a in args:
            c1, d1, b1 = rec(a)
            c += c1
            d = max(d, d1)
            b += b1
        if head[0] == 'abs':
            c1, d1, b1 = rec(head)
            c += c1
            d = max(d, d1)
            b += b1
        is_op = head[0] == 'c' and ((head[1] in TABLE_BINARY and len(args) >= 2) or (head[1] in TABLE_UNARY and len(args) >= 1))
        if is_op:
            return c + 1, d + 1, b
        return c, d, b
    return rec(j)


def head_label(j):
    head, args = strip_app(j)
    if head[0] == 'c':
        return '%s/%d' % (head[1], len(args))
    if head[0] == 'abs':
        return 'lam/%d' % len(args)
    if head[0] in ('v', 'sv'):
        return ('var' if head[0] == 'v' else 'svar') + ('/%d' % len(args) if args else '')
    return 'bound' + ('/%d' % len(args) if args else '')


# ---------------------------------------------------------------------------------------------- fresh-process worker
class WorkerFailed(Exception):
    pass


class Worker:
    """Client side.  One python process per theory; each request is printed by a forked, never-used child.
    Start-up and requests have their own deadlines (select on the pipe); on any failure the process is killed, never
    left behind."""
    START_DEADLINE = 600
    ASK_DEADLINE = 120

    def __init__(self, theory, extra=()):
        import subprocess
        from vlib import harness
        env = dict(os.environ)
        env['PYTHONPATH'] = harness.REPO + ':' + harness.VERIF
        env['PYTHONHASHSEED'] = '0'
        env['PYTHONDONTWRITEBYTECODE'] = '1'
        self.theory = theory
        self.proc = None
        try:
            self.proc = subprocess.Popen([sys.executable, '-m', 'vlib.c07_lib', 'worker', theory] + list(extra), stdin=subprocess.PIPE,
                                         stdout=subprocess.PIPE, stderr=subprocess.DEVNULL, env=env, cwd=harness.VERIF,
                                         text=True, bufsize=1)
            line = self._readline(self.START_DEADLINE)
            self.hello = json.loads(line)
            if not self.hello.get('ready'):
                raise WorkerFailed('C07 worker for %s: %r' % (theory, self.hello))
        except BaseException:
            self.close()
            raise

    def _readline(self, deadline):
        import select
        r, _, _ = select.select([self.proc.stdout], [], [], deadline)
        if not r:
            raise WorkerFailed('C07 worker: no answer within %d s' % deadline)
        line = self.proc.stdout.readline()
        if not line:
            raise WorkerFailed('C07 worker died')
        return line

    def ask(self, req):
        if self.proc is None:
            raise WorkerFailed('C07 worker is closed')
        try:
            self.proc.stdin.write(json.dumps(req) + '\n')
            self.proc.stdin.flush()
            return json.loads(self._readline(self.ASK_DEADLINE))
        except BaseException:
            # the protocol may be out of step (e.g. a timer fired in between): never reuse this process
            self.close()
            raise

    def ask_many(self, reqs):
        """Several requests, each printed by its own never-used child; the children run concurrently."""
        if not reqs:
            return []
        if self.proc is None:
            raise WorkerFailed('C07 worker is closed')
        try:
            self.proc.stdin.write(json.dumps({'batch': reqs}) + '\n')
            self.proc.stdin.flush()
            res = json.loads(self._readline(self.ASK_DEADLINE + 30 * len(reqs)))
            if not isinstance(res, list) or len(res) != len(reqs):
                raise WorkerFailed('C07 worker: bad batch answer')
            return res
        except BaseException:
            self.close()
            raise

    def close(self):
        proc, self.proc = self.proc, None
        if proc is None:
            return
        try:
            proc.stdin.close()
        except Exception:
            pass
        try:
            proc.wait(timeout=3)
        except BaseException:
            try:
                proc.kill()
                proc.wait(timeout=10)
            except BaseException:
                pass


def _worker_main(theory_name, extra=()):
    import signal
    from logic import basic
    from kernel import theory
    from syntax import parser, printer, pprint  # noqa
    names = [theory_name] + [e for e in extra if e != theory_name]
    if any(n in ('interval_arith', 'real') for n in names):
        import data.real  # noqa  (a fresh process must import data.real before theories built on real)
    thys = {}
    for n in reversed(names):       # the main theory last
        basic.load_theory(n)
        thys[n] = theory.thy
    thy = thys[theory_name]
    # modules that the printer imports lazily on its first call (importing is not printing)
    from logic import logic  # noqa
    from data import nat, list, set, function, interval, string  # noqa
    import gc
    gc.collect()
    gc.freeze()
    out = sys.stdout
    out.write(json.dumps({'ready': True, 'memo': len(getattr(pprint, 'term_ast', {}))}) + '\n')
    out.flush()
    def spawn(req):
        r, w = os.pipe()
        pid = os.fork()
        if pid == 0:
            os.close(r)
            res = {}
            try:
                gc.disable()
                signal.alarm(60)
                theory.thy = thy
                t = codec.term_dec(req['t'])
                ran = run_prefix_ops(req.get('prefix'), theory_name, t, thys) if req.get('prefix') else []
                text, lines = do_print('term', t, req.get('unicode'), req.get('highlight'), req.get('line_length'))
                res = {'text': text, 'ran': ran}
            except BaseException as e:  # noqa
                res = {'err': '%s: %s' % (type(e).__name__, str(e)[:200])}
            try:
                os.write(w, json.dumps(res).encode('utf-8'))
            finally:
                os._exit(0)
        os.close(w)
        return pid, r

    def collect(pid, r):
        chunks = []
        while True:
            c = os.read(r, 65536)
            if not c:
                break
            chunks.append(c)
        os.close(r)
        os.waitpid(pid, 0)
        data = b''.join(chunks).decode('utf-8', 'replace')
        try:
            return json.loads(data)
        except Exception:
            return {'err': 'child produced no answer (killed or timed out)'}

    for line in sys.stdin:
        line = line.strip()
        if not line:
            continue
        req = json.loads(line)
        if isinstance(req, dict) and 'batch' in req:
            answers = []
            reqs = req['batch']
            width = 8
            for i in range(0, len(reqs), width):
                kids = [spawn(q) for q in reqs[i:i + width]]
                answers.extend(collect(pid, r) for pid, r in kids)
            out.write(json.dumps(answers) + '\n')
        else:
            out.write(json.dumps(collect(*spawn(req))) + '\n')
        out.flush()


if __name__ == '__main__':
    if len(sys.argv) >= 3 and sys.argv[1] == 'worker':
        _worker_main(sys.argv[2], sys.argv[3:])
