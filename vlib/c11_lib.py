"""C11 oracles and helpers.  Nothing here calls server/items.py, kernel/theory.py or the parser/printer.

* Sig            own model of a theory signature, built by applying extension records (read through their public
                 fields only) with own code: types/arity, general constant types, overloaded names, declared instances
* wf_type, check_term_typed, check_extensions       well-typedness of extensions over the extended signature
* judge_def      structural conservativity judge for a defining equation
* diff_items, perturb_field                          field-wise comparison of item objects (terms up to alpha through
                 vlib.ref, types structurally) and single-field perturbation (for the sensitivity of __eq__)
* jt_text, jterm_text, inhabitant                    own text printer for generated JSON types/terms (fully
                 parenthesised applicative syntax accepted by the item parser)
"""
import copy

from vlib import ref
from vlib.ref import BOOL, tfun

TCONST, CONSTANT, THEOREM, ATTRIBUTE, OVERLOAD = range(5)   # kernel.extension.Extension.ty values (checked in setup)


# ------------------------------------------------------------------------------------------------ types
def wf_type(T, types):
    """None when T is well-formed over `types` (name -> arity), else a reason."""
    if T[0] in ('tv', 'stv'):
        return None
    if T[0] != 'tc':
        return 'not a type: %r' % (T,)
    if T[1] not in types:
        return 'unknown type constructor %s' % T[1]
    if types[T[1]] != len(T[2]):
        return 'type constructor %s has arity %s, used with %d arguments' % (T[1], types[T[1]], len(T[2]))
    for a in T[2]:
        r = wf_type(a, types)
        if r:
            return r
    return None


def _rename(T, prefix):
    if T[0] in ('tv', 'stv'):
        return (T[0], prefix + T[1])
    return ('tc', T[1], tuple(_rename(a, prefix) for a in T[2]))


def _walk(T, s):
    while T[0] != 'tc' and T in s:
        T = s[T]
    return T


def _occurs(v, T, s):
    T = _walk(T, s)
    if T == v:
        return True
    if T[0] == 'tc':
        return any(_occurs(v, a, s) for a in T[2])
    return False


def _unify(A, B, s):
    A, B = _walk(A, s), _walk(B, s)
    if A == B:
        return True
    if A[0] != 'tc':
        if _occurs(A, B, s):
            return False
        s[A] = B
        return True
    if B[0] != 'tc':
        return _unify(B, A, s)
    if A[1] != B[1] or len(A[2]) != len(B[2]):
        return False
    return all(_unify(a, b, s) for a, b in zip(A[2], B[2]))


def unifiable(A, B):
    """Do A and B (type variables of both kinds are variables, the two sides renamed apart) have a common
    instance?  This is 'the two constants overlap'."""
    return _unify(_rename(A, 'L$'), _rename(B, 'R$'), {})


def is_instance(general, T):
    """T is an instance of `general` (all type variables of `general` are pattern variables)."""
    return ref.type_match(_rename(general, 'P$'), T, {}, kinds=('tv', 'stv'))


def type_relation(occ, decl):
    if occ == decl:
        return 'same type'
    if is_instance(decl, occ):
        return 'instance'
    if is_instance(occ, decl):
        return 'generalisation'
    return 'overlapping type'


# ------------------------------------------------------------------------------------------------ signature
class Sig:
    def __init__(self):
        a = ('tv', 'a')
        self.types = {'bool': 0, 'fun': 2}
        self.consts = {'equals': tfun(a, tfun(a, BOOL)), 'implies': tfun(BOOL, tfun(BOOL, BOOL)),
                       'all': tfun(tfun(a, BOOL), BOOL)}
        self.overloaded = set()
        self.instances = {}
        self.theorems = set()
        self.duplicates = []

    def copy(self):
        s = Sig.__new__(Sig)
        s.types = dict(self.types)
        s.consts = dict(self.consts)
        s.overloaded = set(self.overloaded)
        s.instances = {k: list(v) for k, v in self.instances.items()}
        s.theorems = set(self.theorems)
        s.duplicates = list(self.duplicates)
        return s

    def apply_one(self, ext):
        ty = ext.ty
        if ty == TCONST:
            self.types[ext.name] = ext.arity
        elif ty == CONSTANT:
            T = ref.from_type(ext.T)
            if ext.name in self.overloaded:
                self.instances.setdefault(ext.name, []).append(T)
            elif ext.name in self.consts:
                self.duplicates.append(ext.name)
            else:
                self.consts[ext.name] = T
        elif ty == THEOREM:
            self.theorems.add(ext.name)
        elif ty == OVERLOAD:
            self.overloaded.add(ext.name)

    def apply(self, exts):
        for ext in exts:
            self.apply_one(ext)
        return self


# ------------------------------------------------------------------------------------------------ terms
def term_consts(t, acc=None):
    if acc is None:
        acc = []
    tag = t[0]
    if tag == 'const':
        acc.append(t)
    elif tag == 'app':
        term_consts(t[1], acc)
        term_consts(t[2], acc)
    elif tag == 'lam':
        term_consts(t[3], acc)
    return acc


def term_types(t, acc=None):
    """Every type annotation in the term (leaves and binders)."""
    if acc is None:
        acc = []
    tag = t[0]
    if tag in ('var', 'svar', 'const', 'bv'):
        acc.append(t[2])
    elif tag == 'app':
        term_types(t[1], acc)
        term_types(t[2], acc)
    elif tag == 'lam':
        acc.append(t[2])
        term_types(t[3], acc)
    return acc


def check_term_typed(t, sig, want=BOOL):
    """Problems (kind, detail) of a named term against signature `sig`: open, ill-typed, not of type `want`,
    unknown constant, constant not at an instance of its general type, ill-formed type."""
    if ref.is_open(t):
        return [('open-term', 'loose bound variable in %s' % ref.show(t)[:300])]
    out = []
    try:
        T = ref.typeof(t)
        if want is not None and T != want:
            out.append(('not-of-type-bool', 'has type %s: %s' % (ref.show_type(T), ref.show(t)[:300])))
    except ref.RefError as e:
        out.append(('ill-typed', '%s in %s' % (e, ref.show(t)[:300])))
    for c in term_consts(t):
        g = sig.consts.get(c[1])
        if g is None:
            out.append(('unknown-constant', '%s :: %s' % (c[1], ref.show_type(c[2]))))
        elif not is_instance(g, c[2]):
            out.append(('constant-not-instance-of-signature',
                        '%s :: %s, declared %s' % (c[1], ref.show_type(c[2]), ref.show_type(g))))
    for T in term_types(t):
        r = wf_type(T, sig.types)
        if r:
            out.append(('ill-formed-type', '%s in %s' % (r, ref.show_type(T))))
            break
    return out


def check_extensions(exts, sig_pre):
    """Apply the extensions with own code; return (problems, sig_post).  problems: list of (kind, detail)."""
    sig = sig_pre.copy()
    out = []
    for ext in exts:
        ty = getattr(ext, 'ty', None)
        if ty == TCONST:
            if not isinstance(ext.name, str) or not isinstance(ext.arity, int) or isinstance(ext.arity, bool) or ext.arity < 0:
                out.append(('bad-type-declaration', '%r / %r' % (ext.name, ext.arity)))
                continue
            sig.apply_one(ext)
        elif ty == CONSTANT:
            if not isinstance(ext.name, str):
                out.append(('bad-constant-declaration', repr(ext.name)))
                continue
            try:
                T = ref.from_type(ext.T)
            except Exception as e:
                out.append(('bad-constant-declaration', 'type of %s unreadable: %r' % (ext.name, e)))
                continue
            r = wf_type(T, sig.types)
            if r:
                out.append(('constant-type-ill-formed', '%s :: %s: %s' % (ext.name, ref.show_type(T), r)))
            sig.apply_one(ext)
        elif ty == THEOREM:
            th = ext.th
            try:
                terms = [ref.from_term(th.prop)] + [ref.from_term(h) for h in th.hyps]
            except Exception as e:
                out.append(('theorem-unreadable', '%s: %r' % (ext.name, e)))
                continue
            for t in terms:
                for kind, detail in check_term_typed(t, sig):
                    out.append(('theorem-' + kind, 'theorem %s: %s' % (ext.name, detail)))
            sig.apply_one(ext)
        elif ty in (ATTRIBUTE, OVERLOAD):
            sig.apply_one(ext)
        else:
            out.append(('unknown-extension-kind', repr(ty)))
    return out, sig


# ------------------------------------------------------------------------------------------------ conservativity judge
def strip_app(t):
    args = []
    while t[0] == 'app':
        args.append(t[2])
        t = t[1]
    return t, list(reversed(args))


def judge_def(name, declT, prop, sig_pre):
    """The conditions of the property statement, on the named form of the defining equation.  Returns a list of
    (condition, detail); empty list = definitional (conservative)."""
    out = []
    # freshness of the constant
    if name in sig_pre.consts:
        if name not in sig_pre.overloaded:
            out.append(('redefines-existing-constant', 'constant %s :: %s already exists' % (name, ref.show_type(sig_pre.consts[name]))))
        else:
            for inst in sig_pre.instances.get(name, []):
                if unifiable(inst, declT):
                    out.append(('redefines-declared-instance',
                                'overloaded %s is already declared at %s, which overlaps %s' % (name, ref.show_type(inst), ref.show_type(declT))))
                    break
    # shape
    if not (prop[0] == 'app' and prop[1][0] == 'app' and prop[1][1][0] == 'const' and prop[1][1][1] == 'equals'):
        out.append(('not-an-equation', ref.show(prop)[:200]))
        return out
    lhs, rhs = prop[1][2], prop[2]
    head, args = strip_app(lhs)
    if head != ('const', name, declT):
        out.append(('lhs-head', 'head of the left side is %s' % ref.show(head)[:100]))
        return out
    bad = [a for a in args if a[0] != 'var']
    if bad:
        kind = {'const': 'constant', 'svar': 'schematic variable', 'app': 'compound term', 'lam': 'abstraction'}.get(bad[0][0], bad[0][0])
        out.append(('lhs-arg-not-variable', 'argument %s of the left side is a %s' % (ref.show(bad[0])[:100], kind)))
    vs = [a for a in args if a[0] == 'var']
    if len(set(vs)) != len(vs):
        out.append(('lhs-args-repeated', 'left side %s repeats a variable' % ref.show(lhs)[:200]))
    extra = ref.free_vars(rhs) - set(vs)
    if extra:
        ev = sorted(extra, key=repr)
        kinds = sorted(set(v[0] for v in ev))
        k = 'svar' if kinds == ['svar'] else 'var'
        out.append(('rhs-free-variable:' + k, 'right side has free %s not among the left-side variables' % ', '.join(ref.show(v) for v in ev)))
    if _has_loose(rhs):
        out.append(('rhs-free-variable:loose', 'right side has a loose bound variable'))
    tv = ref.all_type_vars(rhs) - ref.type_vars(declT, set())
    if tv:
        out.append(('rhs-type-variable', 'right side has type variable %s absent from %s :: %s' % (
            ', '.join(ref.show_type(v) for v in sorted(tv)), name, ref.show_type(declT))))
    for c in term_consts(rhs):
        if c[1] == name and unifiable(c[2], declT):
            out.append(('self-reference', 'right side mentions %s :: %s (%s as the constant being defined)' % (
                name, ref.show_type(c[2]), type_relation(c[2], declT))))
            break
    return out


def exhibit_inconsistency(name, declT, prop, k=2, budget=4000):
    """Evidence for the report (never a verdict): treat the defined constant as an unknown of its (monomorphic)
    type; if no value of that type makes the accepted equation true under all assignments in all finite standard
    models with type-variable sizes <= k, the extended theory has no standard model.  Returns a sentence or None."""
    import itertools
    from vlib import model
    if ref.type_vars(declT, set()):
        return None
    unknown = ('var', '$' + name, declT)

    def repl(t):
        tag = t[0]
        if tag == 'const' and t[1] == name and t[2] == declT:
            return unknown
        if tag == 'app':
            return ('app', repl(t[1]), repl(t[2]))
        if tag == 'lam':
            return ('lam', t[1], t[2], repl(t[3]), t[4])
        return t
    p = repl(prop)
    if any(c[1] == name for c in term_consts(p)):
        return None
    fv = sorted(ref.free_vars(p) - {unknown}, key=repr)
    tv = sorted(ref.all_type_vars(p), key=repr)
    survivors = None
    try:
        for sizes in itertools.product(range(1, k + 1), repeat=len(tv)):
            M = model.Model(dict(zip(tv, sizes)))
            dom_c = M.dom(declT)
            if survivors is None:
                survivors = set(range(len(dom_c)))
            doms = [M.dom(v[2]) for v in fv]
            total = len(dom_c)
            for d in doms:
                total *= len(d)
            if total > budget:
                return None
            for i in sorted(survivors):
                for vals in itertools.product(*doms):
                    env = dict(zip(fv, vals))
                    env[unknown] = dom_c[i]
                    if not M.eval(p, env):
                        survivors.discard(i)
                        break
            if not survivors:
                return ('no value of type %s for %s satisfies the accepted equation in the finite standard models with '
                        'type sizes <= %d: the extended theory is inconsistent' % (ref.show_type(declT), name, k))
    except (model.Unsupported, ref.RefError, RecursionError):
        return None
    return None


def _has_loose(t):
    return ref.is_open(t)


# ------------------------------------------------------------------------------------------------ item comparison
def _kernel_classes():
    from kernel.term import Term
    from kernel.type import Type
    return Term, Type


def norm_value(x):
    """Canonical, hashable image of a field value: terms up to alpha (vlib.ref), types structurally."""
    Term, Type = _kernel_classes()
    if isinstance(x, Term):
        return ('term', ref.canon(ref.from_term(x)))
    if isinstance(x, Type):
        return ('type', ref.from_type(x))
    if isinstance(x, dict):
        return ('dict', tuple(sorted(((repr(k), norm_value(v)) for k, v in x.items()))))
    if isinstance(x, (list, tuple)):
        return ('list', tuple(norm_value(v) for v in x))
    if isinstance(x, BaseException):
        return ('exc', id(x))
    if x is None or isinstance(x, (str, int, float, bool)):
        return ('atom', type(x).__name__, x)
    return ('obj', repr(x))


def item_fields(item):
    return sorted(k for k in vars(item) if k != 'trace')


def diff_items(a, b):
    """Names of the fields in which the two item objects differ."""
    if type(a) is not type(b):
        return ['<class>']
    out = []
    for k in sorted(set(item_fields(a)) | set(item_fields(b))):
        if not hasattr(a, k) or not hasattr(b, k):
            out.append(k)
            continue
        try:
            if norm_value(getattr(a, k)) != norm_value(getattr(b, k)):
                out.append(k)
        except Exception:
            out.append(k)
    return out


def _different(x):
    """A value of the same sort as x that differs from it."""
    from kernel.term import Term, Var
    from kernel.type import Type, TVar, BoolType
    if isinstance(x, Term):
        return Var('c11_other', BoolType)
    if isinstance(x, Type):
        return TVar('c11_other')
    if isinstance(x, bool):
        return not x
    if isinstance(x, int):
        return x + 1
    if isinstance(x, str):
        return x + '_c11'
    if x is None:
        return 1
    if isinstance(x, dict):
        d = dict(x)
        if d:
            k = sorted(d, key=repr)[-1]
            d[k] = _different(d[k])
        else:
            d['c11_other'] = TVar('c11_other')
        return d
    if isinstance(x, (list, tuple)):
        l = list(x)
        if l:
            l[-1] = _different(l[-1])
        else:
            l.append('c11_other')
        return l
    return None


def perturb_field(item, field):
    """A shallow copy of `item` whose `field` holds a different value (None when no perturbation is known)."""
    val = getattr(item, field)
    new = _different(val)
    if new is None:
        return None
    other = copy.copy(item)
    setattr(other, field, new)
    return other


# ------------------------------------------------------------------------------------------------ text for generated input
def jt_text(T, uni=False):
    arrow = ' ⇒ ' if uni else ' => '
    if T[0] == 'tv':
        return "'" + T[1]
    if T[0] == 'stv':
        return "?'" + T[1]
    if T[1] == 'fun' and len(T) == 4:
        a = jt_text(T[2], uni)
        if T[2][0] == 'tc' and T[2][1] == 'fun':
            a = '(' + a + ')'
        return a + arrow + jt_text(T[3], uni)
    if len(T) == 2:
        return T[1]
    if len(T) == 3:
        a = jt_text(T[2], uni)
        if T[2][0] == 'tc' and len(T[2]) > 2:
            a = '(' + a + ')'
        return a + ' ' + T[1]
    return '(' + ', '.join(jt_text(a, uni) for a in T[2:]) + ') ' + T[1]


def jterm_text(t, annotate, bd=(), uni=False, annotate_vars=False):
    """Fully parenthesised applicative text.  annotate(name, T) -> bool says whether constant `name` at JSON type T
    needs a type annotation for the parser to recover exactly this term."""
    tag = t[0]
    if tag == 'v':
        if annotate_vars:
            return '(%s::%s)' % (t[1], jt_text(t[2], uni))
        return t[1]
    if tag == 'sv':
        return '?' + t[1]
    if tag == 'c':
        if annotate(t[1], t[2]):
            return '(%s::%s)' % (t[1], jt_text(t[2], uni))
        return t[1]
    if tag == 'b':
        return bd[t[1]]
    if tag == 'abs':
        nm = 'b%d' % len(bd)
        lam = 'λ' if uni else '%'
        return '(%s%s::%s. %s)' % (lam, nm, jt_text(t[2], uni),
                                   jterm_text(t[3], annotate, (nm,) + tuple(bd), uni, annotate_vars))
    if tag == 'app':
        return '(%s %s)' % (jterm_text(t[1], annotate, bd, uni, annotate_vars),
                            jterm_text(t[2], annotate, bd, uni, annotate_vars))
    raise ValueError(tag)


def inhabitant(T):
    """A closed JSON term of JSON type T: SOME z::T. true."""
    B = ["tc", "bool"]
    return ["app", ["c", "Some", ["tc", "fun", ["tc", "fun", T, B], T]], ["abs", "z", T, ["c", "true", B]]]


def jsubst_vars(t, f):
    """Replace free variable leaves ['v'|'sv', name, T] by f(leaf) (a JSON term; no capture since replacements
    used here are closed or variables)."""
    tag = t[0]
    if tag in ('v', 'sv'):
        return f(t)
    if tag == 'app':
        return ['app', jsubst_vars(t[1], f), jsubst_vars(t[2], f)]
    if tag == 'abs':
        return ['abs', t[1], t[2], jsubst_vars(t[3], f)]
    return t


def jsubst_type(T, sigma):
    if T[0] in ('tv', 'stv'):
        return sigma.get((T[0], T[1]), T)
    return [T[0], T[1]] + [jsubst_type(a, sigma) for a in T[2:]]
