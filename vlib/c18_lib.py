"""C18 support library: a small first-order term language (JSON "IR"), IR <-> holpy terms, and an
oracle for semantic consequence that is independent of the code under test (own z3 encoding + own concrete
evaluator; truth tables for purely propositional problems).

Types : "bool" | "int" | "real" | "U" | "V" (uninterpreted sorts = holpy type variables) | ["fn", A1, ..., An, R]
Terms : ["v", name, T]                      variable (also bound variables, by name)
        ["ap", f, a1, ..., an]              application of a function-typed term (normally a variable)
        ["true"] ["false"] ["not", a] ["and", a, b] ["or", a, b] ["imp", a, b] ["eq", a, b] ["xor", a, b]
        ["ite", c, a, b] ["distinct", a1, ..., an]
        ["n", T, k]                         numeral k >= 0 of type int/real
        ["+", a, b] ["-", a, b] ["neg", a] ["*", a, b] ["/", a, b] ["<", a, b] ["<=", a, b] [">", a, b] [">=", a, b]
        ["forall", name, T, body] ["exists", name, T, body] ["some", name, T, body] ["let", name, T, val, body]
n-ary and/or/+ are nested exactly like holpy's And/Or (right) and the parser's plus (left).
"""
import itertools
import os
from fractions import Fraction

from vlib.harness import CaseInvalid

BASE_TYPES = ('bool', 'int', 'real', 'U', 'V')
BOOL2 = ('and', 'or', 'imp', 'xor')
CMP = ('<', '<=', '>', '>=')
ARITH2 = ('+', '-', '*', '/')
BINDERS = ('forall', 'exists', 'some')


class Unsupported(Exception):
    """The oracle cannot handle this term (=> inconclusive, never a violation)."""


# ------------------------------------------------------------------------------------------------ IR basics
def is_fn(T):
    return isinstance(T, list) and len(T) >= 3 and T[0] == 'fn'


def check_type(T):
    if isinstance(T, str):
        if T not in BASE_TYPES:
            raise CaseInvalid('type %r' % (T,))
        return
    if not is_fn(T):
        raise CaseInvalid('type %r' % (T,))
    for a in T[1:]:
        check_type(a)


def tkey(T):
    return T if isinstance(T, str) else '(' + ' '.join(tkey(a) for a in T[1:]) + ')'


def ty(t):
    """Type of a well-formed IR term; raises CaseInvalid on ill-formed / ill-typed terms."""
    if not isinstance(t, list) or not t or not isinstance(t[0], str):
        raise CaseInvalid('term %r' % (t,))
    tag = t[0]
    n = len(t)
    if tag == 'v':
        if n != 3 or not isinstance(t[1], str) or not t[1]:
            raise CaseInvalid('var')
        check_type(t[2])
        return t[2]
    if tag == 'ap':
        if n < 3:
            raise CaseInvalid('ap')
        F = ty(t[1])
        if not is_fn(F) or len(F) - 2 != n - 2:
            raise CaseInvalid('ap arity')
        for A, a in zip(F[1:-1], t[2:]):
            if ty(a) != A:
                raise CaseInvalid('ap arg type')
        return F[-1]
    if tag in ('true', 'false'):
        if n != 1:
            raise CaseInvalid(tag)
        return 'bool'
    if tag == 'not':
        if n != 2 or ty(t[1]) != 'bool':
            raise CaseInvalid('not')
        return 'bool'
    if tag in BOOL2:
        if n != 3 or ty(t[1]) != 'bool' or ty(t[2]) != 'bool':
            raise CaseInvalid(tag)
        return 'bool'
    if tag == 'eq':
        if n != 3 or ty(t[1]) != ty(t[2]):
            raise CaseInvalid('eq')
        return 'bool'
    if tag == 'ite':
        if n != 4 or ty(t[1]) != 'bool' or ty(t[2]) != ty(t[3]):
            raise CaseInvalid('ite')
        return ty(t[2])
    if tag == 'distinct':
        if n < 3:
            raise CaseInvalid('distinct')
        T = ty(t[1])
        if any(ty(a) != T for a in t[2:]):
            raise CaseInvalid('distinct')
        return 'bool'
    if tag == 'n':
        if n != 3 or t[1] not in ('int', 'real') or not isinstance(t[2], int) or isinstance(t[2], bool) or \
                t[2] < 0 or t[2] > 10 ** 9:
            raise CaseInvalid('numeral')
        return t[1]
    if tag in ARITH2:
        if n != 3:
            raise CaseInvalid(tag)
        T = ty(t[1])
        if T not in ('int', 'real') or ty(t[2]) != T or (tag == '/' and T != 'real'):
            raise CaseInvalid(tag)
        return T
    if tag == 'neg':
        if n != 2 or ty(t[1]) not in ('int', 'real'):
            raise CaseInvalid('neg')
        return ty(t[1])
    if tag in CMP:
        if n != 3 or ty(t[1]) not in ('int', 'real') or ty(t[2]) != ty(t[1]):
            raise CaseInvalid(tag)
        return 'bool'
    if tag in BINDERS:
        if n != 4 or not isinstance(t[1], str) or not t[1]:
            raise CaseInvalid(tag)
        check_type(t[2])
        if ty(t[3]) != 'bool':
            raise CaseInvalid(tag)
        return t[2] if tag == 'some' else 'bool'
    if tag == 'let':
        if n != 5 or not isinstance(t[1], str):
            raise CaseInvalid('let')
        check_type(t[2])
        if ty(t[3]) != t[2]:
            raise CaseInvalid('let')
        return ty(t[4])
    raise CaseInvalid('tag %r' % (tag,))


def free_vars(t, bound=(), acc=None):
    """Ordered list of free ["v", name, T] nodes (as (name, tkey) -> node)."""
    if acc is None:
        acc = {}
    tag = t[0]
    if tag == 'v':
        if t[1] not in bound:
            acc.setdefault((t[1], tkey(t[2])), t)
    elif tag in BINDERS:
        free_vars(t[3], bound + (t[1],), acc)
    elif tag == 'let':
        free_vars(t[3], bound, acc)
        free_vars(t[4], bound + (t[1],), acc)
    elif tag == 'n':
        pass
    else:
        for a in t[1:]:
            if isinstance(a, list):
                free_vars(a, bound, acc)
    return acc


def all_names(t, acc=None):
    if acc is None:
        acc = set()
    if t[0] == 'v':
        acc.add(t[1])
    elif t[0] in BINDERS or t[0] == 'let':
        acc.add(t[1])
        for a in t[3:]:
            all_names(a, acc)
    elif t[0] != 'n':
        for a in t[1:]:
            if isinstance(a, list):
                all_names(a, acc)
    return acc


def has_tag(t, tags):
    if t[0] in tags:
        return True
    if t[0] in ('v', 'n'):
        return False
    return any(isinstance(a, list) and a and isinstance(a[0], str) and a[0] not in ('fn',) and has_tag(a, tags)
               for a in t[1:])


def subst(t, name, T, val, bound=()):
    """Replace free occurrences of variable (name, T) by val (no capture handling beyond shadowing)."""
    tag = t[0]
    if tag == 'v':
        return val if (t[1] == name and t[2] == T) else t
    if tag == 'n':
        return t
    if tag in BINDERS:
        if t[1] == name:
            return t
        return [tag, t[1], t[2], subst(t[3], name, T, val)]
    if tag == 'let':
        return ['let', t[1], t[2], subst(t[3], name, T, val), t[4] if t[1] == name else subst(t[4], name, T, val)]
    return [tag] + [subst(a, name, T, val) if isinstance(a, list) else a for a in t[1:]]


# builders (right-nested like holpy's And / Or; left-nested plus like the parser)
def AND(xs):
    xs = list(xs)
    if not xs:
        return ['true']
    r = xs[-1]
    for x in reversed(xs[:-1]):
        r = ['and', x, r]
    return r


def OR(xs):
    xs = list(xs)
    if not xs:
        return ['false']
    r = xs[-1]
    for x in reversed(xs[:-1]):
        r = ['or', x, r]
    return r


def NOT(x):
    return ['not', x]


def SUM(xs):
    r = xs[0]
    for x in xs[1:]:
        r = ['+', r, x]
    return r


def NUM(T, q):
    """IR for the numeral the parser would build (Int(k) / Real(Fraction))."""
    q = Fraction(q)
    if q < 0:
        return ['neg', NUM(T, -q)]
    if q.denominator == 1:
        return ['n', T, int(q)]
    if T != 'real':
        raise ValueError('fraction of type int')
    return ['/', ['n', T, q.numerator], ['n', T, q.denominator]]


def show(t):
    tag = t[0]
    if tag == 'v':
        return t[1]
    if tag == 'n':
        return str(t[2]) + ('.0' if t[1] == 'real' else '')
    if tag == 'ap':
        return '%s(%s)' % (show(t[1]), ', '.join(show(a) for a in t[2:]))
    if tag in ('true', 'false'):
        return tag
    if tag == 'not':
        return '~' + show(t[1])
    if tag == 'neg':
        return '-' + show(t[1])
    if tag in BINDERS:
        return '(%s %s:%s. %s)' % (tag, t[1], tkey(t[2]), show(t[3]))
    if tag == 'let':
        return '(let %s = %s in %s)' % (t[1], show(t[3]), show(t[4]))
    if tag in ('ite', 'distinct'):
        return '%s(%s)' % (tag, ', '.join(show(a) for a in t[1:]))
    sym = {'and': '&', 'or': '|', 'imp': '-->', 'eq': '=', 'xor': 'xor'}.get(tag, tag)
    return '(%s %s %s)' % (show(t[1]), sym, show(t[2]))


# ------------------------------------------------------------------------------------------------ IR -> holpy
class Holpy:
    """Lazily imported holpy names (the code under test must already be importable)."""
    ready = False

    @classmethod
    def load(cls):
        if cls.ready:
            return
        from kernel import term as T
        from kernel import type as Ty
        from logic import logic
        from data import list as hol_list
        cls.T, cls.Ty, cls.logic, cls.hol_list = T, Ty, logic, hol_list
        cls.ready = True


def dec_type(T):
    Holpy.load()
    Ty = Holpy.Ty
    if T == 'bool':
        return Ty.BoolType
    if T == 'int':
        return Ty.IntType
    if T == 'real':
        return Ty.RealType
    if T in ('U', 'V'):
        return Ty.TVar(T)
    if is_fn(T):
        return Ty.TFun(*[dec_type(a) for a in T[1:]])
    raise CaseInvalid('type %r' % (T,))


def dec(t):
    """IR -> holpy term, built with the same constructors the Alethe proof parser uses."""
    Holpy.load()
    K = Holpy.T
    tag = t[0]
    if tag == 'v':
        return K.Var(t[1], dec_type(t[2]))
    if tag == 'ap':
        return dec(t[1])(*[dec(a) for a in t[2:]])
    if tag == 'true':
        return K.true
    if tag == 'false':
        return K.false
    if tag == 'not':
        return K.Not(dec(t[1]))
    if tag == 'and':
        return K.And(dec(t[1]), dec(t[2]))
    if tag == 'or':
        return K.Or(dec(t[1]), dec(t[2]))
    if tag == 'imp':
        return K.Implies(dec(t[1]), dec(t[2]))
    if tag == 'eq':
        return K.Eq(dec(t[1]), dec(t[2]))
    if tag == 'xor':
        return Holpy.logic.mk_xor(dec(t[1]), dec(t[2]))
    if tag == 'ite':
        return Holpy.logic.mk_if(dec(t[1]), dec(t[2]), dec(t[3]))
    if tag == 'distinct':
        tms = [dec(a) for a in t[1:]]
        return Holpy.hol_list.distinct(Holpy.hol_list.mk_literal_list(tms, tms[0].get_type()))
    if tag == 'n':
        return K.Int(t[2]) if t[1] == 'int' else K.Real(t[2])
    if tag == '+':
        return dec(t[1]) + dec(t[2])
    if tag == '-':
        return dec(t[1]) - dec(t[2])
    if tag == '*':
        return dec(t[1]) * dec(t[2])
    if tag == '/':
        return dec(t[1]) / dec(t[2])
    if tag == 'neg':
        return -dec(t[1])
    if tag == '<':
        return dec(t[1]) < dec(t[2])
    if tag == '<=':
        return dec(t[1]) <= dec(t[2])
    if tag == '>':
        return dec(t[1]) > dec(t[2])
    if tag == '>=':
        return dec(t[1]) >= dec(t[2])
    if tag == 'forall':
        return K.Forall(K.Var(t[1], dec_type(t[2])), dec(t[3]))
    if tag == 'exists':
        return K.Exists(K.Var(t[1], dec_type(t[2])), dec(t[3]))
    if tag == 'some':
        return Holpy.logic.mk_some(K.Var(t[1], dec_type(t[2])), dec(t[3]))
    if tag == 'let':
        return K.Let(K.Var(t[1], dec_type(t[2])), dec(t[3]), dec(t[4]))
    raise CaseInvalid('tag %r' % (tag,))


# ------------------------------------------------------------------------------------------------ holpy -> IR
def enc_type(T):
    if T.is_tvar():
        if T.name in ('U', 'V'):
            return T.name
        raise Unsupported('type variable %s' % T.name)
    if T.is_tconst():
        if T.name in ('bool', 'int', 'real') and not T.args:
            return T.name
        if T.name == 'fun':
            parts = []
            while T.is_tconst() and T.name == 'fun':
                parts.append(enc_type(T.args[0]))
                T = T.args[1]
            return ['fn'] + parts + [enc_type(T)]
    raise Unsupported('type %s' % T)


def _binary(t):
    """of_nat's argument: one | bit0 b | bit1 b"""
    if t.is_const():
        if t.name == 'one':
            return 1
        if t.name == 'zero':
            return 0
        raise Unsupported('numeral')
    if t.is_comb() and t.fun.is_const() and t.fun.name in ('bit0', 'bit1'):
        return 2 * _binary(t.arg) + (1 if t.fun.name == 'bit1' else 0)
    raise Unsupported('numeral')


_BIN = {'conj': 'and', 'disj': 'or', 'implies': 'imp', 'equals': 'eq', 'xor': 'xor', 'plus': '+', 'minus': '-',
        'times': '*', 'real_divide': '/', 'less': '<', 'less_eq': '<=', 'greater': '>', 'greater_eq': '>='}
_QNT = {'all': 'forall', 'exists': 'exists', 'Some': 'some'}


def enc(t, env=(), used=None):
    """holpy term -> IR by *structure* (constant names); independent of the recognisers used by the macros."""
    if used is None:
        used = set()
        _collect_names(t, used)
    if t.is_var():
        return ['v', t.name, enc_type(t.T)]
    if t.is_bound():
        if t.n >= len(env):
            raise Unsupported('loose bound variable')
        return ['v', env[t.n][0], env[t.n][1]]
    if t.is_svar():
        raise Unsupported('schematic variable')
    if t.is_const():
        if t.name in ('true', 'false'):
            return [t.name]
        if t.name in ('zero', 'one'):
            T = enc_type(t.T)
            if T not in ('int', 'real'):
                raise Unsupported('numeral type')
            return ['n', T, 0 if t.name == 'zero' else 1]
        raise Unsupported('constant %s' % t.name)
    if t.is_abs():
        raise Unsupported('lambda')
    # application
    args = []
    h = t
    while h.is_comb():
        args.append(h.arg)
        h = h.fun
    args.reverse()
    if h.is_const():
        nm, k = h.name, len(args)
        if nm in _BIN and k == 2:
            return [_BIN[nm], enc(args[0], env, used), enc(args[1], env, used)]
        if nm == 'neg' and k == 1:
            return ['not', enc(args[0], env, used)]
        if nm == 'uminus' and k == 1:
            return ['neg', enc(args[0], env, used)]
        if nm == 'IF' and k == 3:
            return ['ite'] + [enc(a, env, used) for a in args]
        if nm in ('of_nat', 'of_int') and k == 1 and nm == 'of_nat':
            T = enc_type(h.T.args[1])
            if T not in ('int', 'real'):
                raise Unsupported('numeral type')
            return ['n', T, _binary(args[0])]
        if nm in _QNT and k == 1 and args[0].is_abs():
            a = args[0]
            name = _binder_name(a, env)
            T = enc_type(a.var_T)
            return [_QNT[nm], name, T, enc(a.body, ((name, T),) + tuple(env), used)]
        if nm == 'Let' and k == 2 and args[1].is_abs():
            a = args[1]
            name = _binder_name(a, env)
            T = enc_type(a.var_T)
            return ['let', name, T, enc(args[0], env, used), enc(a.body, ((name, T),) + tuple(env), used)]
        if nm == 'distinct' and k == 1:
            xs = []
            l = args[0]
            while l.is_comb() and l.fun.is_comb() and l.fun.fun.is_const() and l.fun.fun.name == 'cons':
                xs.append(enc(l.fun.arg, env, used))
                l = l.arg
            if not (l.is_const() and l.name == 'nil') or len(xs) < 2:
                raise Unsupported('distinct list')
            return ['distinct'] + xs
        raise Unsupported('constant %s/%d' % (nm, k))
    if h.is_var() or h.is_bound():
        return ['ap', enc(h, env, used)] + [enc(a, env, used) for a in args]
    raise Unsupported('head %s' % h)


def _binder_name(a, env):
    """Name for the binder of the abstraction `a`: its own name unless that would capture a free variable of the
    body or shadow an enclosing binder (the IR identifies bound variables by name)."""
    name = a.var_name
    inner = set()
    _collect_names(a.body, inner)
    while name in inner or any(name == e[0] for e in env):
        name = name + "'"
    return name


def _collect_names(t, acc):
    stack = [t]
    while stack:
        x = stack.pop()
        if x.is_var():
            acc.add(x.name)
        elif x.is_comb():
            stack.append(x.fun)
            stack.append(x.arg)
        elif x.is_abs():
            stack.append(x.body)


# ------------------------------------------------------------------------------------------------ evaluator
class FnVal:
    __slots__ = ('table', 'default')

    def __init__(self, table, default):
        self.table, self.default = table, default

    def __call__(self, *args):
        return self.table.get(tuple(args), self.default)


def ev(t, M, B=None):
    """Concrete evaluation.  M: {'vars': {(name, tkey): value}, 'univ': {'U': [...], 'V': [...]}}.
    bool -> bool, int -> int, real -> Fraction, U/V -> opaque hashable, functions -> FnVal."""
    if B is None:
        B = {}
    tag = t[0]
    if tag == 'v':
        if t[1] in B:
            return B[t[1]]
        try:
            return M['vars'][(t[1], tkey(t[2]))]
        except KeyError:
            raise Unsupported('no value for %s' % t[1])
    if tag == 'true':
        return True
    if tag == 'false':
        return False
    if tag == 'not':
        return not ev(t[1], M, B)
    if tag == 'and':
        return ev(t[1], M, B) & ev(t[2], M, B)
    if tag == 'or':
        return ev(t[1], M, B) | ev(t[2], M, B)
    if tag == 'imp':
        return (not ev(t[1], M, B)) | ev(t[2], M, B)
    if tag == 'xor':
        return ev(t[1], M, B) != ev(t[2], M, B)
    if tag == 'eq':
        a, b = ev(t[1], M, B), ev(t[2], M, B)
        if isinstance(a, FnVal) or isinstance(b, FnVal):
            raise Unsupported('equality of functions')
        return a == b
    if tag == 'ite':
        return ev(t[2], M, B) if ev(t[1], M, B) else ev(t[3], M, B)
    if tag == 'distinct':
        vs = [ev(a, M, B) for a in t[1:]]
        return len(set(vs)) == len(vs)
    if tag == 'n':
        return t[2] if t[1] == 'int' else Fraction(t[2])
    if tag == 'ap':
        f = ev(t[1], M, B)
        if not isinstance(f, FnVal):
            raise Unsupported('application of a non-function value')
        return f(*[ev(a, M, B) for a in t[2:]])
    if tag == '+':
        return ev(t[1], M, B) + ev(t[2], M, B)
    if tag == '-':
        return ev(t[1], M, B) - ev(t[2], M, B)
    if tag == '*':
        return ev(t[1], M, B) * ev(t[2], M, B)
    if tag == '/':
        d = ev(t[2], M, B)
        if d == 0:
            raise Unsupported('division by zero')
        return Fraction(ev(t[1], M, B)) / d
    if tag == 'neg':
        return -ev(t[1], M, B)
    if tag == '<':
        return ev(t[1], M, B) < ev(t[2], M, B)
    if tag == '<=':
        return ev(t[1], M, B) <= ev(t[2], M, B)
    if tag == '>':
        return ev(t[1], M, B) > ev(t[2], M, B)
    if tag == '>=':
        return ev(t[1], M, B) >= ev(t[2], M, B)
    if tag in ('forall', 'exists'):
        T = t[2]
        if T == 'bool':
            dom = [False, True]
        elif T in ('U', 'V'):
            dom = M.get('univ', {}).get(T)
            if not dom:
                raise Unsupported('no finite universe for %s' % T)
        else:
            raise Unsupported('quantifier over %s' % tkey(T))
        res = (tag == 'forall')
        for d in dom:
            B2 = dict(B)
            B2[t[1]] = d
            r = ev(t[3], M, B2)
            if tag == 'forall' and not r:
                return False
            if tag == 'exists' and r:
                return True
        return res
    if tag == 'let':
        B2 = dict(B)
        B2[t[1]] = ev(t[3], M, B)
        return ev(t[4], M, B2)
    raise Unsupported('evaluate %s' % tag)


def counter_model_holds(prems, concl, M):
    """prems: [(hyps, prop)], concl: (hyps, prop).  True iff under M every premise sequent holds, all
    hypotheses of the conclusion hold, and its proposition is false."""
    for hyps, prop in prems:
        if all(ev(h, M) for h in hyps) and not ev(prop, M):
            return False
    hyps, prop = concl
    if not all(ev(h, M) for h in hyps):
        return False
    return not ev(prop, M)


# ------------------------------------------------------------------------------------------------ z3 encoding
_Z3 = {'pid': None, 'ctx': None, 'z3': None}


def z3ctx():
    if _Z3['pid'] != os.getpid():
        import z3
        _Z3['z3'] = z3
        _Z3['ctx'] = z3.Context()
        _Z3['pid'] = os.getpid()
    return _Z3['z3'], _Z3['ctx']


class Z3Enc:
    def __init__(self):
        self.z3, self.ctx = z3ctx()
        self.sorts = {}
        self.consts = {}

    def sort(self, T):
        z3 = self.z3
        if T == 'bool':
            return z3.BoolSort(self.ctx)
        if T == 'int':
            return z3.IntSort(self.ctx)
        if T == 'real':
            return z3.RealSort(self.ctx)
        if T in ('U', 'V'):
            if T not in self.sorts:
                self.sorts[T] = z3.DeclareSort('S_' + T, self.ctx)
            return self.sorts[T]
        raise Unsupported('sort %s' % tkey(T))

    def const(self, name, T):
        key = (name, tkey(T))
        if key not in self.consts:
            z3 = self.z3
            if is_fn(T):
                self.consts[key] = z3.Function('f_%s_%d' % (name, len(self.consts)),
                                               *[self.sort(a) for a in T[1:]])
            else:
                self.consts[key] = z3.Const('c_%s_%d' % (name, len(self.consts)), self.sort(T))
        return self.consts[key]

    def tr(self, t, B=None):
        z3 = self.z3
        if B is None:
            B = {}
        tag = t[0]
        if tag == 'v':
            if t[1] in B:
                return B[t[1]]
            if is_fn(t[2]):
                raise Unsupported('function variable used as a value')
            return self.const(t[1], t[2])
        if tag == 'ap':
            f = t[1]
            if f[0] != 'v' or f[1] in B:
                raise Unsupported('higher-order application')
            return self.const(f[1], f[2])(*[self.tr(a, B) for a in t[2:]])
        if tag == 'true':
            return z3.BoolVal(True, self.ctx)
        if tag == 'false':
            return z3.BoolVal(False, self.ctx)
        if tag == 'not':
            return z3.Not(self.tr(t[1], B))
        if tag == 'and':
            return z3.And(self.tr(t[1], B), self.tr(t[2], B))
        if tag == 'or':
            return z3.Or(self.tr(t[1], B), self.tr(t[2], B))
        if tag == 'imp':
            return z3.Implies(self.tr(t[1], B), self.tr(t[2], B))
        if tag == 'xor':
            return z3.Xor(self.tr(t[1], B), self.tr(t[2], B))
        if tag == 'eq':
            if is_fn(ty(t[1])):
                raise Unsupported('equality of functions')
            return self.tr(t[1], B) == self.tr(t[2], B)
        if tag == 'ite':
            return z3.If(self.tr(t[1], B), self.tr(t[2], B), self.tr(t[3], B))
        if tag == 'distinct':
            return z3.Distinct(*[self.tr(a, B) for a in t[1:]])
        if tag == 'n':
            return z3.IntVal(t[2], self.ctx) if t[1] == 'int' else z3.RealVal(t[2], self.ctx)
        if tag == '+':
            return self.tr(t[1], B) + self.tr(t[2], B)
        if tag == '-':
            return self.tr(t[1], B) - self.tr(t[2], B)
        if tag == '*':
            return self.tr(t[1], B) * self.tr(t[2], B)
        if tag == '/':
            return self.tr(t[1], B) / self.tr(t[2], B)
        if tag == 'neg':
            return -self.tr(t[1], B)
        if tag == '<':
            return self.tr(t[1], B) < self.tr(t[2], B)
        if tag == '<=':
            return self.tr(t[1], B) <= self.tr(t[2], B)
        if tag == '>':
            return self.tr(t[1], B) > self.tr(t[2], B)
        if tag == '>=':
            return self.tr(t[1], B) >= self.tr(t[2], B)
        if tag in ('forall', 'exists'):
            if is_fn(t[2]):
                raise Unsupported('higher-order quantifier')
            v = z3.Const('b_%s_%d' % (t[1], len(B)), self.sort(t[2]))
            B2 = dict(B)
            B2[t[1]] = v
            body = self.tr(t[3], B2)
            return z3.ForAll([v], body) if tag == 'forall' else z3.Exists([v], body)
        if tag == 'let':
            B2 = dict(B)
            B2[t[1]] = self.tr(t[3], B)
            return self.tr(t[4], B2)
        raise Unsupported('encode %s' % tag)

    # -- model extraction ------------------------------------------------------------------
    def value(self, v, T):
        z3 = self.z3
        if T == 'bool':
            if z3.is_true(v):
                return True
            if z3.is_false(v):
                return False
            raise Unsupported('non-value bool in model')
        if T == 'int':
            if z3.is_int_value(v):
                return v.as_long()
            raise Unsupported('non-value int in model')
        if T == 'real':
            if z3.is_rational_value(v):
                return Fraction(v.numerator_as_long(), v.denominator_as_long())
            if z3.is_int_value(v):
                return Fraction(v.as_long())
            raise Unsupported('non-rational real in model')
        if T in ('U', 'V'):
            if z3.is_app(v) and v.num_args() == 0:
                return 'e:' + str(v)
            raise Unsupported('non-value element in model')
        raise Unsupported('value of type %s' % tkey(T))

    def fn_value(self, m, c, argTs, R, M):
        z3 = self.z3
        # finite argument domains: tabulate by evaluation in the model
        if all(A in ('U', 'V', 'bool') for A in argTs):
            doms = []
            for A in argTs:
                if A == 'bool':
                    doms.append([(False, z3.BoolVal(False, self.ctx)), (True, z3.BoolVal(True, self.ctx))])
                else:
                    u = m.get_universe(self.sort(A)) or []
                    doms.append([(self.value(e, A), e) for e in u])
            size = 1
            for d in doms:
                size *= len(d)
            if all(doms) and size <= 512:
                table = {}
                for combo in itertools.product(*doms):
                    v = m.eval(c(*[e for _, e in combo]), model_completion=True)
                    table[tuple(k for k, _ in combo)] = self.value(v, R)
                default = next(iter(table.values()))
                return FnVal(table, default)
        fi = m[c]
        if fi is None:
            d = z3.Const('dflt', self.sort(R))
            return FnVal({}, self.value(m.eval(d, model_completion=True), R))
        if not isinstance(fi, z3.FuncInterp):
            raise Unsupported('function interpretation is not a table')
        table = {}
        for i in range(fi.num_entries()):
            e = fi.entry(i)
            k = tuple(self.value(e.arg_value(j), argTs[j]) for j in range(e.num_args()))
            table[k] = self.value(e.value(), R)
        ev_ = fi.else_value()
        if ev_ is None:
            raise Unsupported('function interpretation without default')
        return FnVal(table, self.value(ev_, R))

    def model(self, m, fvs):
        """fvs: dict (name, tkey) -> var node.  Returns the evaluator's model M."""
        z3 = self.z3
        M = {'vars': {}, 'univ': {}}
        for S, zs in self.sorts.items():
            u = m.get_universe(zs)
            if u:
                M['univ'][S] = [self.value(e, S) for e in u]
        for key, node in sorted(fvs.items(), key=lambda kv: is_fn(kv[1][2])):
            T = node[2]
            c = self.const(node[1], T)
            if not is_fn(T):
                M['vars'][key] = self.value(m.eval(c, model_completion=True), T)
                if T in ('U', 'V'):
                    M['univ'].setdefault(T, [])
                    if M['vars'][key] not in M['univ'][T]:
                        M['univ'][T].append(M['vars'][key])
            else:
                argTs, R = T[1:-1], T[-1]
                M['vars'][key] = self.fn_value(m, c, argTs, R, M)
        for S in ('U', 'V'):
            if S in M['univ']:
                # values of functions may mention elements outside the recorded universe
                for key, val in M['vars'].items():
                    if isinstance(val, FnVal):
                        for r in list(val.table.values()) + [val.default]:
                            if isinstance(r, str) and r.startswith('e:') and key[1].endswith(S + ')') and \
                                    r not in M['univ'][S]:
                                M['univ'][S].append(r)
        return M


# ------------------------------------------------------------------------------------------------ the oracle
def entails(prems, concl, rlimit=3000000):
    """Does every model of all premise sequents (hyps => prop) satisfy the conclusion sequent?

    Returns (verdict, info): 'valid' | 'invalid' (info = validated counter-model description) |
    'unknown' (info = reason).  'invalid' is only returned for a counter-model that was re-checked by the
    concrete evaluator `ev` (rule 4: certain refutations only)."""
    forms = [p for hs, p in prems] + [h for hs, p in prems for h in hs] + list(concl[0]) + [concl[1]]
    fvs = {}
    for f in forms:
        if ty(f) != 'bool':
            raise CaseInvalid('proposition is not boolean')
        free_vars(f, (), fvs)
    propositional = all(node[2] == 'bool' for node in fvs.values())
    quant = any(has_tag(f, ('forall', 'exists', 'some')) for f in forms)
    try:
        if propositional and len(fvs) <= 12 and not quant and not any(has_tag(f, ('let',)) for f in forms):
            keys = list(fvs.keys())
            for bits in itertools.product([False, True], repeat=len(keys)):
                M = {'vars': dict(zip(keys, bits)), 'univ': {}}
                if counter_model_holds(prems, concl, M):
                    return 'invalid', describe_model(M)
            return 'valid', 'truth table over %d atoms' % len(keys)
    except Unsupported as e:
        return 'unknown', 'truth-table: %s' % e
    for attempt in (0, 1):
        try:
            return _z3_entails(prems, concl, fvs, rlimit)
        except Unsupported as e:
            return 'unknown', 'unsupported: %s' % e
        except Exception as e:  # z3 errors: retry once in a fresh context, then give up (inconclusive)
            if type(e).__name__ != 'Z3Exception':
                raise
            _Z3['pid'] = None
            if attempt == 1:
                return 'unknown', 'z3 error: %s' % e


def _z3_entails(prems, concl, fvs, rlimit):
    E = Z3Enc()
    z3 = E.z3
    s = z3.Solver(ctx=E.ctx)
    s.set('rlimit', rlimit)        # deterministic resource bound (no timer thread per query)
    for hs, p in prems:
        if hs:
            s.add(z3.Implies(z3.And(*[E.tr(h) for h in hs]) if len(hs) > 1 else E.tr(hs[0]), E.tr(p)))
        else:
            s.add(E.tr(p))
    for h in concl[0]:
        s.add(E.tr(h))
    s.add(z3.Not(E.tr(concl[1])))
    r = s.check()
    if r == z3.unsat:
        return 'valid', 'z3 unsat'
    if r != z3.sat:
        return 'unknown', 'z3 unknown: %s' % s.reason_unknown()
    M = E.model(s.model(), fvs)
    if counter_model_holds(prems, concl, M):
        return 'invalid', describe_model(M)
    return 'unknown', 'z3 model does not validate by evaluation'


def describe_model(M):
    out = []
    for (name, tk), v in sorted(M['vars'].items(), key=lambda kv: kv[0]):
        if isinstance(v, FnVal):
            out.append('%s={%s; else %s}' % (name, ', '.join('%s->%s' % (k, r) for k, r in sorted(
                v.table.items(), key=str)), v.default))
        else:
            out.append('%s=%s' % (name, v))
    return ', '.join(out)
