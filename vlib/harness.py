"""Shared harness: recording of cases, sharding over processes, known findings,
replay files, evidence files, JSON shrinking, time limits.

A property module (props/cNN_*.py) exposes:

    ID            'C15'
    RULE          text: how cases are generated and what counts as non-trivial
    ASSUMPTIONS   list of strings
    LEVEL_NOTE    optional
    setup()                      import code under test, build oracles, self-test (raise SelfTestError)
    shards(tier) -> list         JSON-able shard descriptors
    run_shard(desc, seed, tier, H)   explore; record through H (never raises for violations)
    run_case(case, H)            run ONE case (used by replay and by the shrinker); records through H
"""
import contextlib
import hashlib
import json
import os
import signal
import sys
import time
import traceback
from collections import Counter

VERIF = os.path.dirname(os.path.dirname(os.path.abspath(__file__)))
REPO = os.environ.get('VERIF_REPO', '/repo')


class SelfTestError(Exception):
    """Oracle / harness self-test failed: exit code 2, never a VIOLATION."""


class CaseInvalid(Exception):
    """Raised by a decoder when a (shrunk / hand-edited) case is malformed."""


class Timeout(Exception):
    pass


@contextlib.contextmanager
def time_limit(seconds):
    """Raise Timeout in the current (main) thread after `seconds`.  A hit is
    always classified 'inconclusive' by callers, never as a violation, except
    where a property defines a termination rule (C15)."""
    def handler(signum, frame):
        raise Timeout()
    old = signal.signal(signal.SIGALRM, handler)
    signal.setitimer(signal.ITIMER_REAL, seconds)
    try:
        yield
    finally:
        signal.setitimer(signal.ITIMER_REAL, 0)
        signal.signal(signal.SIGALRM, old)


def exc_text(e, n=300):
    """Text of an exception of the code under test; its __str__ may itself raise (it prints terms)."""
    try:
        return str(getattr(e, 'str', e))[:n]
    except Timeout:
        raise
    except Exception as e2:
        return '<%s while printing the message>' % type(e2).__name__


def canon(obj):
    return json.dumps(obj, sort_keys=True, separators=(',', ':'), default=str)


def digest(obj):
    if not isinstance(obj, str):
        obj = canon(obj)
    return int.from_bytes(hashlib.blake2b(obj.encode('utf-8', 'replace'), digest_size=8).digest(), 'big')


class Ctx:
    """Recorder for one shard (or for the merged run)."""
    MAX_SAMPLES_PER_CLASS = 2
    MAX_SAMPLES = 14

    def __init__(self, pid, tier='quick', seed=1):
        self.pid = pid
        self.tier = tier
        self.seed = seed
        self.evaluations = 0
        self.nontrivial = set()
        self.nontrivial_bulk = 0
        self.classes = Counter()
        self.samples = {}
        self.inconclusive = Counter()
        self.violations = {}
        self.notes = Counter()
        self.exhaustive = []
        self.excluded_known = 0

    # -- recording ---------------------------------------------------------
    def case(self, case, nontrivial=False, klass=None, key=None, sample=True):
        self.evaluations += 1
        if nontrivial:
            self.nontrivial.add(digest(key if key is not None else case))
        klasses = klass if isinstance(klass, (list, tuple)) else [klass]
        for k in klasses:
            if k is None:
                continue
            self.classes[k] += 1
            if sample and (nontrivial or k.startswith('!')):
                lst = self.samples.setdefault(k, [])
                if len(lst) < self.MAX_SAMPLES_PER_CLASS and len(self.samples) <= self.MAX_SAMPLES:
                    lst.append(case)

    def bulk(self, evaluations, nontrivial, klass=None):
        """For enumerated domains, where distinctness holds by construction."""
        self.evaluations += evaluations
        self.nontrivial_bulk += nontrivial
        if klass:
            self.classes[klass] += evaluations

    def sample(self, klass, case):
        lst = self.samples.setdefault(klass, [])
        if len(lst) < self.MAX_SAMPLES_PER_CLASS and len(self.samples) <= self.MAX_SAMPLES:
            lst.append(case)

    def note(self, name, n=1):
        self.notes[name] += n

    def inconc(self, reason):
        self.inconclusive[reason] += 1

    def violation(self, sig, case, detail=''):
        size = len(canon(case))
        cur = self.violations.get(sig)
        if cur is None:
            self.violations[sig] = {'case': case, 'detail': str(detail)[:2000], 'count': 1, 'size': size}
        else:
            cur['count'] += 1
            if size < cur['size']:
                cur.update(case=case, detail=str(detail)[:2000], size=size)

    def mark_exhaustive(self, what):
        self.exhaustive.append(what)

    # -- transport ---------------------------------------------------------
    def dump(self):
        return {
            'evaluations': self.evaluations, 'nontrivial': list(self.nontrivial),
            'nontrivial_bulk': self.nontrivial_bulk, 'classes': dict(self.classes),
            'samples': self.samples, 'inconclusive': dict(self.inconclusive),
            'violations': self.violations, 'notes': dict(self.notes),
            'exhaustive': self.exhaustive, 'excluded_known': self.excluded_known,
        }

    def merge(self, d):
        self.evaluations += d['evaluations']
        self.nontrivial.update(d['nontrivial'])
        self.nontrivial_bulk += d['nontrivial_bulk']
        self.classes.update(d['classes'])
        for k, lst in d['samples'].items():
            cur = self.samples.setdefault(k, [])
            for c in lst:
                if len(cur) < self.MAX_SAMPLES_PER_CLASS:
                    cur.append(c)
        self.inconclusive.update(d['inconclusive'])
        for sig, v in d['violations'].items():
            cur = self.violations.get(sig)
            if cur is None:
                self.violations[sig] = dict(v)
            else:
                cur['count'] += v['count']
                if v['size'] < cur['size']:
                    cur.update(case=v['case'], detail=v['detail'], size=v['size'])
        self.notes.update(d['notes'])
        self.exhaustive.extend(d['exhaustive'])
        self.excluded_known += d['excluded_known']


# -- known findings -----------------------------------------------------------
def load_known(pid):
    path = os.path.join(VERIF, 'known_findings.json')
    if not os.path.exists(path):
        return {}, {}
    with open(path) as f:
        data = json.load(f)
    open_, fixed = {}, {}
    for e in data.get('findings', []):
        if e.get('property') != pid:
            continue
        (open_ if e.get('status') == 'open' else fixed)[e['signature']] = e
    return open_, fixed


# -- generic JSON shrinker ------------------------------------------------------
def _children_same_kind(node):
    """Tagged sub-nodes (lists whose head is a string) anywhere below `node`;
    candidates for replacing `node` itself."""
    out = []
    stack = [x for x in node[1:] if isinstance(x, (list, dict))]
    while stack:
        c = stack.pop()
        if isinstance(c, dict):
            stack.extend(x for x in c.values() if isinstance(x, (list, dict)))
        elif c and isinstance(c[0], str):
            out.append(c)
            stack.extend(x for x in c[1:] if isinstance(x, (list, dict)))
        else:
            stack.extend(x for x in c if isinstance(x, (list, dict)))
    return out


def shrink_json(case, pred, budget=400, seconds=120):
    """Greedy structural shrinking of a JSON case.  `pred(case)` says whether the
    candidate still exhibits the failure (it must swallow CaseInvalid itself or
    let it propagate: both mean 'no').  Moves: drop a list element (for plain
    lists), replace a tagged node by one of its tagged descendants, make ints
    smaller."""
    t0 = time.time()
    calls = [0]

    def ok(c):
        if calls[0] >= budget or time.time() - t0 > seconds:
            return False
        calls[0] += 1
        try:
            return bool(pred(c))
        except CaseInvalid:
            return False
        except Timeout:
            return False

    def paths(node, prefix=()):
        yield prefix, node
        if isinstance(node, list):
            for i, c in enumerate(node):
                yield from paths(c, prefix + (i,))
        elif isinstance(node, dict):
            for k in sorted(node):
                yield from paths(node[k], prefix + (k,))

    def replace(root, path, new):
        if not path:
            return new
        root = json.loads(json.dumps(root))
        cur = root
        for p in path[:-1]:
            cur = cur[p]
        cur[path[-1]] = new
        return root

    def delete(root, path):
        root = json.loads(json.dumps(root))
        cur = root
        for p in path[:-1]:
            cur = cur[p]
        del cur[path[-1]]
        return root

    improved = True
    while improved and calls[0] < budget and time.time() - t0 <= seconds:
        improved = False
        for path, node in list(paths(case)):
            cands = []
            if isinstance(node, list):
                tagged = bool(node) and isinstance(node[0], str)
                if tagged:
                    for c in _children_same_kind(node):
                        cands.append(replace(case, path, c))
                else:
                    for i in range(len(node)):
                        cands.append(delete(case, path + (i,)))
            elif isinstance(node, bool):
                pass
            elif isinstance(node, int) and node != 0:
                for v in {0, node // 2, node - 1 if node > 0 else node + 1}:
                    if v != node:
                        cands.append(replace(case, path, v))
            cands.sort(key=lambda c: len(canon(c)))
            for cand in cands:
                if len(canon(cand)) >= len(canon(case)) and not isinstance(node, int):
                    continue
                if ok(cand):
                    case = cand
                    improved = True
                    break
            if improved:
                break
    return case, calls[0]


# -- hypothesis glue -------------------------------------------------------------
def hyp_run(strategy, body, n, seed, stateful=False):
    """Run `body(case)` on `n` generated cases.  body must not raise for property
    violations (survey mode); exceptions are harness errors."""
    import hypothesis
    from hypothesis import given, settings, HealthCheck, Phase

    @hypothesis.seed(seed)
    @settings(max_examples=n, database=None, deadline=None, derandomize=False,
              phases=[Phase.generate], report_multiple_bugs=False,
              suppress_health_check=list(HealthCheck))
    @given(strategy)
    def t(case):
        body(case)
    t()


def hyp_settings(n, **kw):
    from hypothesis import settings, HealthCheck, Phase
    return settings(max_examples=n, database=None, deadline=None, derandomize=False,
                    phases=[Phase.generate], report_multiple_bugs=False,
                    suppress_health_check=list(HealthCheck), **kw)


def split(n, k):
    """Split n cases over k shards."""
    base, rem = divmod(n, k)
    return [base + (1 if i < rem else 0) for i in range(k)]
