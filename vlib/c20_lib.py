"""Oracles for C20 (imperative programs): everything here is independent of /repo/imperative.

JSON languages (the ground truth of every case is the meaning of these trees):

  E ::= ["v", name] | ["n", k] | ["neg", E] | ["+", E, E] | ["-", E, E] | ["*", E, E] | ["abs", E] | ["max", E, E]
  C ::= ["true"] | ["false"] | [cmp, E, E]  (cmp in == != <= < >= >) | ["~", C] | ["&", C, C] | ["|", C, C]
      | ["-->", C, C] | ["<-->", C, C] | ["ite", C, C, C]
  K ::= ["skip"] | ["asg", name, E] | ["seq", K, K] | ["if", C, K, K] | ["while", C(cond), C(invariant), K]

Variable names are strings (integer programs) or small ints (slots of a nat => nat state, HOL level).

Parts:
  * ev_expr / ev_cond: evaluation in a state (dict name -> python int, or -> z3 term: the same code builds z3 formulas)
  * run: reference interpreter with fuel, records every state visited
  * std_str / std_read: printer with minimal brackets and recursive-descent reader for the *displayed* syntax under the
    ordinary conventions (unary minus > * > + -, left associative; ~ > & > | > -->, right associative; if-then-else
    extends as far to the right as possible)
  * std_str_com / std_read_com: the same for commands (`;` right associative, loops with or without `[invariant]`);
    the strict reader refuses texts whose command structure the grammar leaves open (conditional followed by `;`)
  * hol_com_run: big-step interpreter for HOL terms of type (nat => nat) com (rules of Sem in library/hoare.json)
  * obj_to_json: reads an imperative.expr object through its public fields
  * hol_eval: evaluator for the HOL terms produced by convert_hol / imp.vcg_norm (python or z3 values)
  * z3_valid: validity of a condition through z3, counter-models validated by concrete evaluation
"""
import re

from vlib.harness import CaseInvalid

ARITH = ('+', '-', '*')
CMP = ('==', '!=', '<=', '<', '>=', '>')
BOOL2 = ('&', '|', '-->', '<-->')


class Unsupported(Exception):
    """Object / term outside the language the oracle knows: the case is inconclusive, never a violation."""


class Malformed(Unsupported):
    """Not a HOL term at all (e.g. an imperative.expr object inside a term)."""


# ---------------------------------------------------------------- well-formedness
def _name_ok(x):
    return (isinstance(x, str) and re.fullmatch(r'[A-Za-z_][A-Za-z_0-9]*', x) is not None and
            x not in ('true', 'false', 'if', 'then', 'else', 'skip', 'while', 'forall', 'abs', 'max')) or \
        (isinstance(x, int) and not isinstance(x, bool) and 0 <= x < 64)


def check_expr(e, depth=0):
    if not isinstance(e, list) or not e or not isinstance(e[0], str) or depth > 40:
        raise CaseInvalid('expr')
    t = e[0]
    if t == 'v' and len(e) == 2 and _name_ok(e[1]):
        return
    if t == 'n' and len(e) == 2 and isinstance(e[1], int) and not isinstance(e[1], bool) and 0 <= e[1] < 10 ** 6:
        return
    if t in ('neg', 'abs') and len(e) == 2:
        return check_expr(e[1], depth + 1)
    if (t in ARITH or t == 'max') and len(e) == 3:
        check_expr(e[1], depth + 1)
        return check_expr(e[2], depth + 1)
    raise CaseInvalid('expr tag %r' % (t,))


def check_cond(c, depth=0):
    if not isinstance(c, list) or not c or not isinstance(c[0], str) or depth > 40:
        raise CaseInvalid('cond')
    t = c[0]
    if t in ('true', 'false') and len(c) == 1:
        return
    if t in CMP and len(c) == 3:
        check_expr(c[1])
        return check_expr(c[2])
    if t == '~' and len(c) == 2:
        return check_cond(c[1], depth + 1)
    if t in BOOL2 and len(c) == 3:
        check_cond(c[1], depth + 1)
        return check_cond(c[2], depth + 1)
    if t == 'ite' and len(c) == 4:
        for x in c[1:]:
            check_cond(x, depth + 1)
        return
    raise CaseInvalid('cond tag %r' % (t,))


def check_com(k, depth=0):
    if not isinstance(k, list) or not k or not isinstance(k[0], str) or depth > 60:
        raise CaseInvalid('com')
    t = k[0]
    if t == 'skip' and len(k) == 1:
        return
    if t == 'asg' and len(k) == 3 and _name_ok(k[1]):
        return check_expr(k[2])
    if t == 'seq' and len(k) == 3:
        check_com(k[1], depth + 1)
        return check_com(k[2], depth + 1)
    if t == 'if' and len(k) == 4:
        check_cond(k[1])
        check_com(k[2], depth + 1)
        return check_com(k[3], depth + 1)
    if t == 'while' and len(k) == 4:
        check_cond(k[1])
        check_cond(k[2])
        return check_com(k[3], depth + 1)
    raise CaseInvalid('com tag %r' % (t,))


def has_while(k):
    return k[0] == 'while' or any(has_while(x) for x in k[1:] if isinstance(x, list) and x and x[0] in
                                  ('skip', 'asg', 'seq', 'if', 'while'))


def subcoms(k):
    """Sub-commands in post-order."""
    t = k[0]
    if t == 'seq':
        yield from subcoms(k[1])
        yield from subcoms(k[2])
    elif t == 'if':
        yield from subcoms(k[2])
        yield from subcoms(k[3])
    elif t == 'while':
        yield from subcoms(k[3])
    yield k


def com_depth(k):
    t = k[0]
    if t == 'seq':
        return max(com_depth(k[1]), com_depth(k[2]))   # sequencing does not nest
    if t == 'if':
        return 1 + max(com_depth(k[2]), com_depth(k[3]))
    if t == 'while':
        return 1 + com_depth(k[3])
    return 0


def assigned_vars(k):
    return {x[1] for x in subcoms(k) if x[0] == 'asg'}


def vars_of(t):
    out = set()
    stack = [t]
    while stack:
        x = stack.pop()
        if isinstance(x, list) and x:
            if x[0] == 'v':
                out.add(x[1])
            else:
                stack.extend(y for y in x[1:] if isinstance(y, list))
    return out


# ---------------------------------------------------------------- two-sorted values: python or z3
def _py(*xs):
    for x in xs:
        if not isinstance(x, (bool, int)):
            return False
    return True


def b_not(a):
    if _py(a):
        return not a
    import z3
    return z3.Not(a)


def b_and(a, b):
    if _py(a, b):
        return bool(a and b)
    import z3
    return z3.And(a, b)


def b_or(a, b):
    if _py(a, b):
        return bool(a or b)
    import z3
    return z3.Or(a, b)


def b_imp(a, b):
    if _py(a, b):
        return bool((not a) or b)
    import z3
    return z3.Implies(a, b)


def b_iff(a, b):
    if _py(a, b):
        return bool(a) == bool(b)
    import z3
    if isinstance(a, bool):
        a = z3.BoolVal(a)
    if isinstance(b, bool):
        b = z3.BoolVal(b)
    return a == b


def v_ite(c, x, y):
    if _py(c):
        return x if c else y
    import z3
    if isinstance(x, bool) or isinstance(y, bool) or z3.is_bool(x) or z3.is_bool(y):
        if isinstance(x, bool):
            x = z3.BoolVal(x)
        if isinstance(y, bool):
            y = z3.BoolVal(y)
    else:
        if isinstance(x, int):
            x = z3.IntVal(x)
        if isinstance(y, int):
            y = z3.IntVal(y)
    return z3.If(c, x, y)


def v_cmp(op, a, b):
    if op == '==':
        return a == b
    if op == '!=':
        r = (a == b)
        return b_not(r)
    if op == '<=':
        return a <= b
    if op == '<':
        return a < b
    if op == '>=':
        return a >= b
    if op == '>':
        return a > b
    raise Unsupported(op)


def v_abs(a):
    return v_ite(a >= 0, a, -a)


def v_max(a, b):
    return v_ite(a <= b, b, a)


def v_natminus(a, b):
    return v_ite(a >= b, a - b, 0)


# ---------------------------------------------------------------- semantics of the JSON trees
def ev_expr(e, st):
    t = e[0]
    if t == 'v':
        return st[e[1]]
    if t == 'n':
        return e[1]
    if t == 'neg':
        return -ev_expr(e[1], st)
    if t == '+':
        return ev_expr(e[1], st) + ev_expr(e[2], st)
    if t == '-':
        return ev_expr(e[1], st) - ev_expr(e[2], st)
    if t == '*':
        return ev_expr(e[1], st) * ev_expr(e[2], st)
    if t == 'abs':
        return v_abs(ev_expr(e[1], st))
    if t == 'max':
        return v_max(ev_expr(e[1], st), ev_expr(e[2], st))
    raise Unsupported('expr %r' % (t,))


def ev_cond(c, st):
    t = c[0]
    if t == 'true':
        return True
    if t == 'false':
        return False
    if t in CMP:
        return v_cmp(t, ev_expr(c[1], st), ev_expr(c[2], st))
    if t == '~':
        return b_not(ev_cond(c[1], st))
    if t == '&':
        return b_and(ev_cond(c[1], st), ev_cond(c[2], st))
    if t == '|':
        return b_or(ev_cond(c[1], st), ev_cond(c[2], st))
    if t == '-->':
        return b_imp(ev_cond(c[1], st), ev_cond(c[2], st))
    if t == '<-->':
        return b_iff(ev_cond(c[1], st), ev_cond(c[2], st))
    if t == 'ite':
        return v_ite(ev_cond(c[1], st), ev_cond(c[2], st), ev_cond(c[3], st))
    raise Unsupported('cond %r' % (t,))


class OutOfFuel(Exception):
    pass


def run(k, st, fuel=200, limit=10 ** 9):
    """Reference big-step interpreter.  Returns (final state | None when the fuel ran out or a value left
    -limit..limit, visited states, number of loop iterations).  The input state is not modified."""
    visited = [dict(st)]
    box = {'fuel': fuel, 'iters': 0}

    def go(k, st):
        t = k[0]
        if t == 'skip':
            return st
        if t == 'asg':
            st2 = dict(st)
            val = ev_expr(k[2], st)
            if not -limit <= val <= limit:
                raise OutOfFuel()
            st2[k[1]] = val
            visited.append(st2)
            return st2
        if t == 'seq':
            return go(k[2], go(k[1], st))
        if t == 'if':
            return go(k[2], st) if ev_cond(k[1], st) else go(k[3], st)
        if t == 'while':
            while ev_cond(k[1], st):
                if box['fuel'] <= 0:
                    raise OutOfFuel()
                box['fuel'] -= 1
                box['iters'] += 1
                st = go(k[3], st)
            return st
        raise Unsupported('com %r' % (t,))
    try:
        fin = go(k, dict(st))
    except OutOfFuel:
        return None, visited, box['iters']
    return fin, visited, box['iters']


# ---------------------------------------------------------------- standard-notation printer / reader
_PREC = {'-->': 25, '<-->': 25, '|': 30, '&': 35, '~': 40, '+': 65, '-': 65, '*': 70, 'neg': 80}


def _prec(t):
    tag = t[0]
    if tag == 'ite':
        return 10
    if tag in CMP:
        return 50
    return _PREC.get(tag, 100)


def std_str(t):
    """Minimal brackets under the ordinary conventions; std_read(std_str(t)) == t."""
    tag = t[0]

    def sub(x, limit, strict):
        s = std_str(x)
        p = _prec(x)
        if p < limit or (strict and p == limit):
            return '(' + s + ')'
        return s
    if tag == 'v':
        return str(t[1])
    if tag == 'n':
        return str(t[1])
    if tag in ('true', 'false'):
        return tag
    if tag in ('abs', 'max'):
        return '%s(%s)' % (tag, ','.join(std_str(x) for x in t[1:]))
    if tag == 'neg':
        return '-' + sub(t[1], 80, False)
    if tag in ('+', '-', '*'):
        p = _PREC[tag]
        return '%s %s %s' % (sub(t[1], p, False), tag, sub(t[2], p, True))
    if tag in CMP:
        return '%s %s %s' % (std_str(t[1]), tag, std_str(t[2]))
    if tag == '~':
        return '~' + sub(t[1], 40, False)
    if tag in BOOL2:
        p = _PREC[tag]
        return '%s %s %s' % (sub(t[1], p, True), tag, sub(t[2], p, False))
    if tag == 'ite':
        return 'if %s then %s else %s' % (std_str(t[1]), std_str(t[2]), std_str(t[3]))
    raise Unsupported('std_str %r' % (tag,))


_TOK = re.compile(r'\s*(-->|<-->|==|!=|<=|>=|:=|<|>|[-+*()~&|,;{}\[\]]|\d+|[A-Za-z_][A-Za-z_0-9]*)')


class ReadError(Exception):
    pass


def tokens(s):
    out = []
    pos = 0
    s = s.rstrip()
    while pos < len(s):
        m = _TOK.match(s, pos)
        if not m:
            raise ReadError('cannot tokenise at %d: %r' % (pos, s[pos:pos + 10]))
        out.append(m.group(1))
        pos = m.end()
    return out


class Ambiguous(ReadError):
    """Text whose command structure the grammar of the tool does not pin down (a conditional directly followed by
    `;`: both `(if .. else c); d` and `if .. else (c; d)` are derivations, and there is no convention to appeal to)."""


class _Reader:
    def __init__(self, toks, strict=False):
        self.t = toks
        self.i = 0
        self.strict = strict

    def peek(self):
        return self.t[self.i] if self.i < len(self.t) else None

    def eat(self, tok=None):
        cur = self.peek()
        if cur is None or (tok is not None and cur != tok):
            raise ReadError('expected %r, found %r at token %d' % (tok, cur, self.i))
        self.i += 1
        return cur

    # expressions: sum > product > unary > atom, left associative
    def expr(self):
        e = self.term()
        while self.peek() in ('+', '-'):
            op = self.eat()
            e = [op, e, self.term()]
        return e

    def term(self):
        e = self.unary()
        while self.peek() == '*':
            self.eat()
            e = ['*', e, self.unary()]
        return e

    def unary(self):
        if self.peek() == '-':
            self.eat()
            return ['neg', self.unary()]
        return self.atom()

    def atom(self):
        tok = self.peek()
        if tok is None:
            raise ReadError('unexpected end')
        if tok.isdigit():
            self.eat()
            return ['n', int(tok)]
        if tok == '(':
            self.eat()
            e = self.expr()
            self.eat(')')
            return e
        if re.fullmatch(r'[A-Za-z_][A-Za-z_0-9]*', tok) and tok not in ('if', 'then', 'else', 'true', 'false'):
            self.eat()
            if self.peek() == '(':
                self.eat()
                args = [self.expr()]
                while self.peek() == ',':
                    self.eat()
                    args.append(self.expr())
                self.eat(')')
                if (tok, len(args)) not in (('abs', 1), ('max', 2)):
                    raise ReadError('unknown function %s/%d' % (tok, len(args)))
                return [tok] + args
            return ['v', tok]
        raise ReadError('unexpected token %r' % (tok,))

    # conditions: --> (right) < | (right) < & (right) < ~ < atom
    def cond(self):
        a = self.disj()
        if self.peek() in ('-->', '<-->'):
            op = self.eat()
            return [op, a, self.cond()]
        return a

    def disj(self):
        a = self.conj()
        if self.peek() == '|':
            self.eat()
            return ['|', a, self.disj()]
        return a

    def conj(self):
        a = self.neg()
        if self.peek() == '&':
            self.eat()
            return ['&', a, self.conj()]
        return a

    def neg(self):
        if self.peek() == '~':
            self.eat()
            return ['~', self.neg()]
        return self.atomc()

    def atomc(self):
        tok = self.peek()
        if tok in ('true', 'false'):
            self.eat()
            return [tok]
        if tok == 'if':
            self.eat()
            c = self.cond()
            self.eat('then')
            a = self.cond()
            self.eat('else')
            b = self.cond()
            return ['ite', c, a, b]
        save = self.i
        try:
            l = self.expr()
            op = self.peek()
            if op not in CMP:
                raise ReadError('comparison expected, found %r' % (op,))
            self.eat()
            r = self.expr()
            return [op, l, r]
        except ReadError:
            self.i = save
        if tok == '(':
            self.eat()
            c = self.cond()
            self.eat(')')
            return c
        raise ReadError('condition expected at token %d (%r)' % (self.i, tok))

    # commands; `;` is right associative, the first branch of a conditional extends to its `else`, the second one is a
    # single command (or a block in braces, only used to write the loop templates)
    def com(self):
        a = self.atomk()
        if self.peek() == ';':
            if self.strict and a[0] == 'if':
                raise Ambiguous('conditional followed by ; at token %d' % self.i)
            self.eat()
            return ['seq', a, self.com()]
        return a

    def block(self):
        if self.peek() == '{':
            self.eat()
            k = self.com()
            self.eat('}')
            return k
        return self.atomk()

    def atomk(self):
        tok = self.peek()
        if tok == 'skip':
            self.eat()
            return ['skip']
        if tok == 'if':
            self.eat()
            self.eat('(')
            b = self.cond()
            self.eat(')')
            self.eat('then')
            # the mandatory `else` closes the first branch, which may therefore be a sequence
            k1 = self.block() if self.peek() == '{' else self.com()
            self.eat('else')
            k2 = self.block()
            return ['if', b, k1, k2]
        if tok == 'while':
            self.eat()
            self.eat('(')
            b = self.cond()
            self.eat(')')
            self.eat('{')
            if self.peek() == '[':
                self.eat('[')
                inv = self.cond()
                self.eat(']')
            else:
                inv = ['true']      # a loop without an annotation carries the trivial invariant
            k = self.com()
            self.eat('}')
            return ['while', b, inv, k]
        if tok == '{':
            return self.block()
        name = self.eat()
        self.eat(':=')
        return ['asg', name, self.expr()]


def std_read(s):
    r = _Reader(tokens(s))
    c = r.cond()
    if r.peek() is not None:
        raise ReadError('trailing input at token %d (%r)' % (r.i, r.peek()))
    return c


def std_read_com(s, strict=False):
    """strict: refuse (Ambiguous) texts in which a conditional is directly followed by `;`."""
    r = _Reader(tokens(s), strict)
    k = r.com()
    if r.peek() is not None:
        raise ReadError('trailing input at token %d (%r)' % (r.i, r.peek()))
    return k


def std_str_com(k, bare=False, show=None):
    """One-line concrete syntax of a command (the syntax of the examples in imperative/examples/test.json).  Nothing is
    grouped: the language has no brackets for commands.  bare: a loop whose invariant is `true` is written without
    the annotation.  show: printer for expressions and conditions (default std_str)."""
    show = show or std_str
    t = k[0]

    def rec(x):
        return std_str_com(x, bare, show)
    if t == 'skip':
        return 'skip'
    if t == 'asg':
        return '%s := %s' % (k[1], show(k[2]))
    if t == 'seq':
        return '%s; %s' % (rec(k[1]), rec(k[2]))
    if t == 'if':
        return 'if (%s) then %s else %s' % (show(k[1]), rec(k[2]), rec(k[3]))
    if t == 'while':
        if bare and k[2] == ['true']:
            return 'while (%s) {%s}' % (show(k[1]), rec(k[3]))
        return 'while (%s) {[%s] %s}' % (show(k[1]), show(k[2]), rec(k[3]))
    raise Unsupported('std_str_com %r' % (t,))


def strip_brackets(s):
    """The text without ( ) -- what remains is read by precedence alone.  abs( / max( are kept out of such texts."""
    return s.replace('(', '').replace(')', '')


def tokens_without_brackets(s):
    return [t for t in tokens(s) if t not in ('(', ')')]


def needs_brackets(t):
    return '(' in std_str(t).replace('abs(', '').replace('max(', '')


# ---------------------------------------------------------------- reading imperative.expr objects
def obj_to_json(o):
    """Reads public fields only (name / val / op / args / cond / e1 / e2 / fname)."""
    cls = type(o).__name__
    if cls == 'Var':
        return ['v', o.name]
    if cls == 'Const':
        if isinstance(o.val, bool):
            return ['true'] if o.val else ['false']
        if isinstance(o.val, int):
            return ['n', o.val] if o.val >= 0 else ['neg', ['n', -o.val]]
        raise Unsupported('Const %r' % (o.val,))
    if cls == 'Op':
        args = [obj_to_json(a) for a in o.args]
        if len(args) == 1:
            if o.op == '-':
                return ['neg', args[0]]
            if o.op == '~':
                return ['~', args[0]]
        elif len(args) == 2 and (o.op in ARITH or o.op in CMP or o.op in BOOL2):
            return [o.op, args[0], args[1]]
        raise Unsupported('Op %r/%d' % (o.op, len(args)))
    if cls == 'ITE':
        return ['ite', obj_to_json(o.cond), obj_to_json(o.e1), obj_to_json(o.e2)]
    if cls == 'Fun':
        if (o.fname, len(o.args)) in (('abs', 1), ('max', 2)):
            return [o.fname] + [obj_to_json(a) for a in o.args]
        raise Unsupported('Fun %r' % (o.fname,))
    raise Unsupported('object %s' % cls)


# ---------------------------------------------------------------- HOL terms
SVAR, VAR, CONST, COMB, ABS, BOUND = range(6)


def _tyname(T):
    return getattr(T, 'name', None)


def _arg_type_name(T):
    """Name of the first argument type of a function type."""
    args = getattr(T, 'args', None)
    if _tyname(T) == 'fun' and args:
        return _tyname(args[0])
    return None


def hol_eval(t, fvars, states=None, bound=()):
    """Evaluate a HOL term.  fvars: name -> value for free variables.  states: values over which a universal
    quantifier on a function type ranges (a finite sample, or one symbolic state).  Functions are python callables.
    Values are python ints / bools or z3 terms."""
    ty = getattr(t, 'ty', None)
    if ty is None:
        raise Malformed('%s object inside a term' % type(t).__name__)
    if ty == VAR:
        if t.name not in fvars:
            raise Unsupported('free variable %s' % t.name)
        return fvars[t.name]
    if ty == BOUND:
        return bound[-1 - t.n]
    if ty == ABS:
        body = t.body
        return lambda v: hol_eval(body, fvars, states, bound + (v,))
    if ty == CONST:
        return _hol_const(t, states)
    if ty == COMB:
        f = hol_eval(t.fun, fvars, states, bound)
        a = hol_eval(t.arg, fvars, states, bound)
        if not callable(f):
            raise Unsupported('application of a non-function')
        return f(a)
    raise Unsupported('term kind %r' % (ty,))


def _hol_const(c, states):
    n = c.name
    if n == 'zero':
        return 0
    if n == 'one':
        return 1
    if n == 'true':
        return True
    if n == 'false':
        return False
    if n == 'bit0':
        return lambda x: 2 * x
    if n == 'bit1':
        return lambda x: 2 * x + 1
    if n == 'of_nat':
        return lambda x: x
    if n == 'Suc':
        return lambda x: x + 1
    if n == 'plus':
        return lambda x: lambda y: x + y
    if n == 'times':
        return lambda x: lambda y: x * y
    if n == 'minus':
        if _arg_type_name(c.T) == 'nat':
            return lambda x: lambda y: v_natminus(x, y)
        if _arg_type_name(c.T) == 'int':
            return lambda x: lambda y: x - y
        raise Unsupported('minus at %s' % c.T)
    if n == 'uminus':
        if _arg_type_name(c.T) == 'int':
            return lambda x: -x
        raise Unsupported('uminus at %s' % c.T)
    if n == 'less_eq':
        return lambda x: lambda y: x <= y
    if n == 'less':
        return lambda x: lambda y: x < y
    if n == 'greater_eq':
        return lambda x: lambda y: x >= y
    if n == 'greater':
        return lambda x: lambda y: x > y
    if n == 'equals':
        an = _arg_type_name(c.T)
        if an == 'bool':
            return lambda x: lambda y: b_iff(x, y)
        if an in ('nat', 'int'):
            return lambda x: lambda y: x == y
        raise Unsupported('equality at %s' % c.T)
    if n == 'neg':
        return b_not
    if n == 'conj':
        return lambda x: lambda y: b_and(x, y)
    if n == 'disj':
        return lambda x: lambda y: b_or(x, y)
    if n == 'implies':
        return lambda x: lambda y: b_imp(x, y)
    if n == 'IF':
        return lambda p: lambda x: lambda y: v_ite(p, x, y)
    if n == 'abs':
        if _arg_type_name(c.T) == 'int':
            return v_abs
        raise Unsupported('abs at %s' % c.T)
    if n == 'max':
        if _arg_type_name(c.T) in ('int', 'nat'):
            return lambda x: lambda y: v_max(x, y)
        raise Unsupported('max at %s' % c.T)
    if n == 'fun_upd':
        def upd(f):
            def upd2(a):
                def upd3(b):
                    def g(x):
                        if not _py(a, x):
                            raise Unsupported('symbolic index in fun_upd')
                        return b if x == a else f(x)
                    return g
                return upd3
            return upd2
        return upd
    if n == 'all':
        # only over the state type nat => nat
        dom = getattr(c.T, 'args', [None])[0]
        dom_args = getattr(dom, 'args', None)
        if not (_tyname(dom) == 'fun' and dom_args and _tyname(dom_args[0]) == 'fun'):
            raise Unsupported('quantifier at %s' % c.T)
        if states is None:
            raise Unsupported('quantifier without a sample of states')

        def allq(P):
            acc = True
            for s in states:
                acc = b_and(acc, P(s))
                if acc is False:
                    return False
            return acc
        return allq
    raise Unsupported('constant %s' % n)


def dict_state_fun(d, default=0):
    """A nat => nat state as a python callable."""
    def f(x):
        if not _py(x):
            raise Unsupported('symbolic index')
        return d.get(x, default)
    return f


# ---------------------------------------------------------------- HOL commands (library/hoare.json)
def hol_strip(t):
    args = []
    while getattr(t, 'ty', None) == COMB:
        args.append(t.arg)
        t = t.fun
    return t, args[::-1]


def hol_com_run(t, st, fvars=None, fuel=200, limit=10 ** 9):
    """Big-step execution of a term of type (nat => nat) com, following the rules of Sem in library/hoare.json
    (Skip = Basic id, Assign a b = Basic (%f. (f)(a := b f)), Sem_seq, Sem_if1/2, Sem_while_skip/loop).
    st: dict index -> int (0 elsewhere).  Returns the final dict, or None when the fuel ran out / a value left the
    range."""
    fvars = fvars or {}
    box = {'fuel': fuel}

    def go(t, st):
        head, args = hol_strip(t)
        if getattr(head, 'ty', None) != CONST:
            raise Unsupported('command head')
        n = head.name
        if n == 'Skip' and not args:
            return st
        if n == 'Assign' and len(args) == 2:
            idx = hol_eval(args[0], fvars)
            val = hol_eval(args[1], fvars)(dict_state_fun(st))
            if not _py(idx, val):
                raise Unsupported('symbolic assignment')
            if not -limit <= val <= limit:
                raise OutOfFuel()
            st = dict(st)
            st[idx] = val
            return st
        if n == 'Seq' and len(args) == 2:
            return go(args[1], go(args[0], st))
        if n == 'Cond' and len(args) == 3:
            return go(args[1], st) if hol_eval(args[0], fvars)(dict_state_fun(st)) else go(args[2], st)
        if n == 'While' and len(args) == 3:
            b = hol_eval(args[0], fvars)
            while b(dict_state_fun(st)):
                if box['fuel'] <= 0:
                    raise OutOfFuel()
                box['fuel'] -= 1
                st = go(args[2], st)
            return st
        raise Unsupported('command %s/%d' % (n, len(args)))
    try:
        return go(t, dict(st))
    except OutOfFuel:
        return None


def hol_com_conds(t):
    """(tag, term) of the guards and invariants of a HOL command, in text order."""
    head, args = hol_strip(t)
    n = getattr(head, 'name', None)
    if n == 'Seq' and len(args) == 2:
        return hol_com_conds(args[0]) + hol_com_conds(args[1])
    if n == 'Cond' and len(args) == 3:
        return [('if', args[0])] + hol_com_conds(args[1]) + hol_com_conds(args[2])
    if n == 'While' and len(args) == 3:
        return [('while', args[0]), ('inv', args[1])] + hol_com_conds(args[2])
    return []


# ---------------------------------------------------------------- z3
def z3_valid(build, names, nat=False, check=None, timeout_ms=3000):
    """build(state: dict name -> z3 Int) -> z3 Bool / python bool: the condition for a symbolic state.
    Returns ('valid', None) | ('invalid', model as dict) | ('unknown', reason).  A counter-model only counts if
    check(model) (concrete evaluation by the caller) confirms that the condition is false there."""
    import z3
    syms = {nm: z3.Int('x_%s' % (nm,)) for nm in names}
    try:
        f = build(syms)
    except Unsupported as e:
        return 'unknown', 'unsupported: %s' % e
    if isinstance(f, bool):
        if f:
            return 'valid', None
        model = {nm: 0 for nm in names}
        if check is None or check(model):
            return 'invalid', model
        return 'unknown', 'constant false not confirmed'
    s = z3.Solver()
    s.set('timeout', timeout_ms)
    s.set('random_seed', 0)
    if nat:
        for v in syms.values():
            s.add(v >= 0)
    s.add(z3.Not(f))
    r = s.check()
    if r == z3.unsat:
        return 'valid', None
    if r == z3.sat:
        m = s.model()
        model = {}
        for nm, v in syms.items():
            val = m.eval(v, model_completion=True)
            try:
                model[nm] = val.as_long()
            except Exception:
                return 'unknown', 'non-integer model value'
        if check is None or check(model):
            return 'invalid', model
        return 'unknown', 'model not confirmed by evaluation'
    return 'unknown', 'z3: %s' % s.reason_unknown()


# ---------------------------------------------------------------- deterministic sample of states
def lcg_states(seed, n, names, lo, hi, corners=True):
    """n states over `names` with values in lo..hi, a pure function of seed.  The first ones are corner states."""
    out = []
    if corners:
        for k in (0, 1, lo, hi):
            out.append({nm: max(lo, min(hi, k)) for nm in names})
    x = (seed * 6364136223846793005 + 1442695040888963407) & 0xFFFFFFFFFFFFFFFF
    span = hi - lo + 1
    while len(out) < n:
        st = {}
        for nm in names:
            x = (x * 6364136223846793005 + 1442695040888963407) & 0xFFFFFFFFFFFFFFFF
            st[nm] = lo + ((x >> 33) % span)
        out.append(st)
    return out[:n]
