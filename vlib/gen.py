"""Hypothesis strategies producing JSON types / terms (see vlib.codec for the encoding).

Everything is built by construction (type-directed), not by rejection.
"""
from hypothesis import strategies as st

from vlib.codec import BOOL, fun, jt_is_fun, jt_strip, jt_subst, jt_match, jt_vars

A = ["tv", "a"]
B = ["tv", "b"]
SA = ["stv", "a"]
SB = ["stv", "b"]

# base-logic signature (logic_base.json), polymorphic in 'a
LOGIC_BASE = [
    ("true", BOOL), ("false", BOOL), ("neg", fun(BOOL, BOOL)),
    ("conj", fun(BOOL, BOOL, BOOL)), ("disj", fun(BOOL, BOOL, BOOL)), ("implies", fun(BOOL, BOOL, BOOL)),
    ("equals", fun(A, A, BOOL)), ("all", fun(fun(A, BOOL), BOOL)), ("exists", fun(fun(A, BOOL), BOOL)),
    ("exists1", fun(fun(A, BOOL), BOOL)), ("IF", fun(BOOL, A, A, A)),
    ("Some", fun(fun(A, BOOL), A)), ("The", fun(fun(A, BOOL), A)),
]

VAR_NAMES = ["x", "y", "z", "f", "g", "p", "q", "x1", "A", "B", "P"]


class Opts:
    def __init__(self, sig=LOGIC_BASE, svars=False, stvars=False, loose=False, redex=True, names=None,
                 atom_types=None, max_order=1):
        self.sig = sig
        self.svars = svars
        self.stvars = stvars
        self.loose = loose
        self.redex = redex
        self.names = names or VAR_NAMES
        self.atom_types = atom_types
        self.max_order = max_order


def atom_types(opts):
    if opts.atom_types is not None:
        return list(opts.atom_types)
    res = [BOOL, A, B]
    if opts.stvars:
        res += [SA]
    return res


def small_types(opts):
    """Types used as argument types of applications / instantiations: atoms and first-order function types."""
    at = atom_types(opts)
    res = list(at)
    for x in at:
        for y in at:
            res.append(fun(x, y))
    return res


def types(opts, order=None):
    order = opts.max_order + 1 if order is None else order
    at = st.sampled_from(atom_types(opts))
    if order <= 0:
        return at
    lower = types(opts, order - 1)
    return st.one_of(at, at, st.builds(lambda a, b: fun(a, b), lower, at),
                     st.builds(lambda a, b, c: fun(a, b, c), at, at, at))


@st.composite
def terms(draw, opts, T, bound=(), fuel=4):
    """A term of JSON type T.  bound: tuple of types of enclosing binders (innermost first)."""
    choices = []
    for i, bt in enumerate(bound):
        if bt == T:
            choices.append(('bound', i))
    choices.append(('var', None))
    if opts.loose and fuel >= 0:
        choices.append(('loose', None))
    nullary = []
    applied = []
    for name, cT in opts.sig:
        args, res = jt_strip(cT)
        for k in range(len(args) + 1):
            # use the constant applied to the first k arguments: result type args[k:] => res
            rest = fun(*(args[k:] + [res]))
            sigma = {}
            if jt_match(rest, T, sigma):
                (nullary if k == 0 else applied).append((name, cT, k, sigma))
    for c in nullary:
        choices.append(('const', c))
    if fuel > 0:
        for c in applied:
            choices.append(('capp', c))
            choices.append(('capp', c))
        if jt_is_fun(T):
            choices.append(('lam', None))
            choices.append(('lam', None))
        choices.append(('app', None))
        if opts.redex:
            choices.append(('redex', None))
    kind, data = draw(st.sampled_from(choices))
    if kind == 'bound':
        return ["b", data]
    if kind == 'loose':
        return ["b", len(bound) + draw(st.integers(0, 1))]
    if kind == 'var':
        name = draw(st.sampled_from(opts.names))
        tag = 'sv' if (opts.svars and draw(st.integers(0, 2)) == 0) else 'v'
        return [tag, name, T]
    if kind in ('const', 'capp'):
        name, cT, k, sigma = data
        sigma = dict(sigma)
        for key in jt_vars(cT):
            if key not in sigma:
                sigma[key] = draw(st.sampled_from(small_types(opts) if fuel > 1 else atom_types(opts)))
        inst = jt_subst(cT, sigma)
        args, _ = jt_strip(inst)
        t = ["c", name, inst]
        for aT in args[:k]:
            t = ["app", t, draw(terms(opts, aT, bound, fuel - 1))]
        return t
    if kind == 'lam':
        nm = draw(st.sampled_from(opts.names))
        return ["abs", nm, T[2], draw(terms(opts, T[3], (T[2],) + tuple(bound), fuel - 1))]
    if kind == 'app':
        aT = draw(st.sampled_from(small_types(opts) if fuel > 1 else atom_types(opts)))
        f = draw(terms(opts, fun(aT, T), bound, fuel - 1))
        a = draw(terms(opts, aT, bound, fuel - 1))
        return ["app", f, a]
    if kind == 'redex':
        aT = draw(st.sampled_from(small_types(opts) if fuel > 1 else atom_types(opts)))
        nm = draw(st.sampled_from(opts.names))
        body = draw(terms(opts, T, (aT,) + tuple(bound), fuel - 1))
        a = draw(terms(opts, aT, bound, fuel - 1))
        return ["app", ["abs", nm, aT, body], a]
    raise AssertionError(kind)


def jterm_type(t, bound=()):
    """Type of a well-typed JSON term (no checking)."""
    tag = t[0]
    if tag in ('v', 'sv', 'c'):
        return t[2]
    if tag == 'b':
        return bound[t[1]]
    if tag == 'abs':
        return fun(t[2], jterm_type(t[3], (t[2],) + tuple(bound)))
    return jterm_type(t[1], bound)[3]


def jterm_size(t):
    tag = t[0]
    if tag == 'app':
        return 1 + jterm_size(t[1]) + jterm_size(t[2])
    if tag == 'abs':
        return 1 + jterm_size(t[3])
    return 1


def jterm_atoms(t, acc=None):
    """Free variable atoms (tag, name, canonical type string)."""
    import json
    if acc is None:
        acc = []
    tag = t[0]
    if tag in ('v', 'sv'):
        key = (tag, t[1], json.dumps(t[2]))
        if key not in acc:
            acc.append(key)
    elif tag == 'app':
        jterm_atoms(t[1], acc)
        jterm_atoms(t[2], acc)
    elif tag == 'abs':
        jterm_atoms(t[3], acc)
    return acc
