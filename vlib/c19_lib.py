"""Independent numeric evaluator  integral.expr.Expr -> mpmath  used by props/c19_integral.py.

Nothing in here calls integral.rules / poly / limits / interval: an expression is only *read* (its ty tag and
fields) and interpreted with real-number semantics:

* definite integrals: tanh-sinh quadrature (mpmath.quad) split at detected singular points / kinks (sign changes of
  denominators, of arguments of abs/log/sqrt and of bases of non-integer powers, found on a grid and refined by
  bisection), with the reported error required to be small;
* limits: sampling along a geometric sequence towards the limit point from the stated side at raised working
  precision, accepted only when the sequence has visibly converged (integral bounds that are the limit variable itself
  are replaced by the limit point);
* sums: direct for finite ranges, mpmath.nsum with two different acceleration settings for infinite ones;
* derivatives: mpmath.diff;  evaluation brackets: difference of the two (limit) values;
* antiderivatives  INT x. f : the particular antiderivative  quad(f, [base_x, x])  (callers compare increments);
* Skolem constants evaluate to 0 (callers compare increments, so additive constants drop out);
* user-defined functions are unfolded through the definitions supplied by the caller.

Everything that is not a finite real number obtained with a small error estimate raises Inconc(reason).
"""
import mpmath
from mpmath import mp, mpf, mpc

VAR, CONST, OP, FUN, DERIV, INTEGRAL, EVAL_AT, SYMBOL, LIMIT, INF, INDEFINITEINTEGRAL, DIFFERENTIAL, \
    SKOLEMFUNC, SUMMATION = range(14)


class Inconc(Exception):
    def __init__(self, reason):
        Exception.__init__(self, reason)
        self.reason = reason


REL_OPS = ('=', '!=', '<', '<=', '>', '>=')


def check_tags(expr_mod):
    """The tags above are copied, not imported: make sure they still agree with integral.expr."""
    names = ['VAR', 'CONST', 'OP', 'FUN', 'DERIV', 'INTEGRAL', 'EVAL_AT', 'SYMBOL', 'LIMIT', 'INF',
             'INDEFINITEINTEGRAL', 'DIFFERENTIAL', 'SKOLEMFUNC', 'SUMMATION']
    return all(getattr(expr_mod, n) == globals()[n] for n in names)


# ------------------------------------------------------------------------------------------- structure helpers
def children(e):
    t = e.ty
    if t in (OP, FUN):
        return list(e.args)
    if t in (INTEGRAL, EVAL_AT, SUMMATION):
        return [e.lower, e.upper, e.body]
    if t == LIMIT:
        return [e.lim, e.body]
    if t in (DERIV, INDEFINITEINTEGRAL, DIFFERENTIAL):
        return [e.body]
    if t == SKOLEMFUNC:
        return list(e.dependent_vars)
    return []


def free_vars(e, antider_free=True):
    """Free variables.  The variable of an indefinite integral is *free* (the value is a function of it)."""
    out = set()

    def rec(t, bound):
        ty = t.ty
        if ty == VAR or ty == SYMBOL:
            if t.name not in bound:
                out.add(str(t.name))
        elif ty in (OP, FUN):
            for a in t.args:
                rec(a, bound)
        elif ty in (INTEGRAL, EVAL_AT):
            rec(t.lower, bound)
            rec(t.upper, bound)
            rec(t.body, bound | {t.var})
        elif ty == SUMMATION:
            rec(t.lower, bound)
            rec(t.upper, bound)
            rec(t.body, bound | {t.index_var})
        elif ty == LIMIT:
            rec(t.lim, bound)
            rec(t.body, bound | {t.var})
        elif ty == DERIV:
            # D x. f  is a function of x
            rec(t.body, bound)
            if t.var not in bound:
                out.add(str(t.var))
        elif ty == INDEFINITEINTEGRAL:
            if antider_free:
                rec(t.body, bound)
                if t.var not in bound:
                    out.add(str(t.var))
            else:
                rec(t.body, bound | {t.var})
        elif ty == DIFFERENTIAL:
            rec(t.body, bound)
        elif ty == SKOLEMFUNC:
            pass
    rec(e, frozenset())
    return out


def contains_ty(e, tys):
    if e.ty in tys:
        return True
    return any(contains_ty(c, tys) for c in children(e))


def subterms(e):
    yield e
    for c in children(e):
        yield from subterms(c)


def depends_on(e, name):
    return name in free_vars(e)


# ------------------------------------------------------------------------------------------- real-valued primitives
def _chk_real(v):
    if isinstance(v, mpc):
        if v.imag == 0:
            return v.real
        raise Inconc('nonreal')
    return v


def r_sqrt(x):
    if x < 0:
        raise Inconc('nonreal:sqrt')
    return mp.sqrt(x)


def r_log(x):
    if x < 0:
        raise Inconc('nonreal:log')
    if x == 0:
        raise ZeroDivisionError
    return mp.log(x)


def r_pow(x, y):
    if isinstance(y, int):
        if y < 0 and x == 0:
            raise ZeroDivisionError
        return x ** y
    if x > 0:
        return x ** y
    if x == 0:
        if y > 0:
            return mp.zero
        if y == 0:
            return mp.one
        raise ZeroDivisionError
    if x != x or y != y:
        raise Inconc('nan')
    if mp.isinf(y):
        raise Inconc('inf-exponent')
    if mp.isint(y):
        return x ** int(y)
    raise Inconc('nonreal:pow')


def r_asin(x):
    if x < -1 or x > 1:
        raise Inconc('nonreal:asin')
    return mp.asin(x)


def r_acos(x):
    if x < -1 or x > 1:
        raise Inconc('nonreal:acos')
    return mp.acos(x)


def r_factorial(x):
    if x < 0 and mp.isint(x):
        raise ZeroDivisionError
    return mp.factorial(x)


def r_binom(n, k):
    return mp.binomial(n, k)


FUN1 = {
    'sin': lambda x: mp.sin(x), 'cos': lambda x: mp.cos(x), 'tan': lambda x: mp.tan(x),
    'cot': lambda x: mp.cot(x), 'sec': lambda x: mp.sec(x), 'csc': lambda x: mp.csc(x),
    'asin': r_asin, 'acos': r_acos, 'atan': lambda x: mp.atan(x), 'acot': lambda x: mp.acot(x),
    'sinh': lambda x: mp.sinh(x), 'cosh': lambda x: mp.cosh(x), 'tanh': lambda x: mp.tanh(x),
    'log': r_log, 'exp': lambda x: mp.exp(x), 'sqrt': r_sqrt, 'abs': lambda x: abs(x),
    'factorial': r_factorial,
}
FUN0 = {'pi': lambda: +mp.pi, 'G': lambda: +mp.catalan}


# ------------------------------------------------------------------------------------------- the evaluator
class Evaluator:
    """Compiles expressions to closures  env -> mpf  at the precision that is current when they are *called*.

    defs: name -> (list of argument names, rhs Expr)   user-defined functions / constants
    base: name -> mpf    lower limit used for antiderivatives  INT x. f
    """

    def __init__(self, defs=None, quad_tol=None, max_sum_terms=3000):
        self.defs = defs or {}
        self.base = {}
        self.quad_tol = quad_tol
        self.max_sum_terms = max_sum_terms
        self._cache = {}
        self._defcache = {}
        self.stats = {'quad': 0, 'limit': 0, 'nsum': 0, 'diff': 0}
        self.quad_variant = 0       # 1: an independent second quadrature configuration
        self.depth = 0

    # ---- public
    def value(self, e, env):
        """env: name -> mpf.  Returns a finite real mpf or raises Inconc."""
        f = self.compile(e)
        try:
            v = f(dict(env))
        except ZeroDivisionError:
            raise Inconc('pole')
        except OverflowError:
            raise Inconc('overflow')
        except mpmath.libmp.NoConvergence:
            raise Inconc('noconvergence')
        except RecursionError:
            raise Inconc('recursion')
        except KeyError as k:
            raise Inconc('unbound:%s' % (k.args[0] if k.args else '?'))
        except (ValueError, TypeError) as ex:
            raise Inconc('numeric-error:%s' % type(ex).__name__)
        v = _chk_real(v)
        if not isinstance(v, mpf):
            v = mpf(v)
        if not mp.isfinite(v):
            raise Inconc('nonfinite')
        return v

    def value_or_inf(self, e, env):
        """Like value, but +-oo (as written, e.g. an integral bound) is allowed."""
        if e.ty == INF:
            return mp.inf if str(e) == 'oo' else -mp.inf
        return self.value(e, env)

    def truth(self, cond, env):
        """Truth value of a comparison (used for side conditions of parameter draws)."""
        if cond.ty != OP or cond.op not in REL_OPS:
            raise Inconc('not-a-condition')
        a = self.value(cond.args[0], env)
        b = self.value(cond.args[1], env)
        op = cond.op
        if op == '=':
            return a == b
        if op == '!=':
            return a != b
        if op == '<':
            return a < b
        if op == '<=':
            return a <= b
        if op == '>':
            return a > b
        return a >= b

    # ---- compilation
    def compile(self, e):
        key = id(e)
        hit = self._cache.get(key)
        if hit is not None and hit[0] is e:
            return hit[1]
        f = self._compile(e)
        self._cache[key] = (e, f)
        return f

    def _compile(self, e):
        ty = e.ty
        if ty == VAR or ty == SYMBOL:
            name = str(e.name)
            if name in self.defs and not self.defs[name][0]:
                return self._userfun(name, [])

            def var(env, name=name):
                return env[name]
            return var
        if ty == CONST:
            val = e.val
            if isinstance(val, int):
                v0 = mpf(val)          # exact at any precision for the integers that occur

                def const_i(env, v0=v0, val=val):
                    return v0
                if abs(val) < 2 ** 50:
                    return const_i
            num, den = val.numerator, val.denominator
            cache = {}

            def const_f(env, num=num, den=den, cache=cache):
                p = mp.prec
                v = cache.get(p)
                if v is None:
                    v = cache[p] = mpf(num) / den
                return v
            return const_f
        if ty == INF:
            pos = str(e) == 'oo'

            def inf(env, pos=pos):
                return mp.inf if pos else -mp.inf
            return inf
        if ty == OP:
            return self._compile_op(e)
        if ty == FUN:
            return self._compile_fun(e)
        if ty == INTEGRAL:
            return self._compile_integral(e)
        if ty == EVAL_AT:
            return self._compile_evalat(e)
        if ty == LIMIT:
            return self._compile_limit(e)
        if ty == DERIV:
            return self._compile_deriv(e)
        if ty == SUMMATION:
            return self._compile_sum(e)
        if ty == INDEFINITEINTEGRAL:
            return self._compile_antider(e)
        if ty == SKOLEMFUNC:
            return lambda env: mp.zero
        raise Inconc('unsupported-node:%d' % ty)

    def _compile_op(self, e):
        op = e.op
        if len(e.args) == 1:
            a = self.compile(e.args[0])
            return lambda env: -a(env)
        x, y = e.args
        if op in REL_OPS:
            raise Inconc('relation-inside-expression')
        a = self.compile(x)
        if op == '^':
            if y.ty == CONST and isinstance(y.val, int):
                n = y.val
                return lambda env: r_pow(a(env), n)
            b = self.compile(y)
            return lambda env: r_pow(a(env), b(env))
        b = self.compile(y)
        if op == '+':
            return lambda env: a(env) + b(env)
        if op == '-':
            return lambda env: a(env) - b(env)
        if op == '*':
            return lambda env: a(env) * b(env)
        if op == '/':
            def div(env):
                d = b(env)
                if d == 0:
                    raise ZeroDivisionError
                return a(env) / d
            return div
        raise Inconc('unsupported-op:%s' % op)

    def _compile_fun(self, e):
        name = str(e.func_name)
        args = [self.compile(a) for a in e.args]
        if name in self.defs:
            return self._userfun(name, args)
        if len(args) == 0:
            if name in FUN0:
                f0 = FUN0[name]
                return lambda env: f0()
            raise Inconc('unknown-constant:%s' % name)
        if len(args) == 1 and name in FUN1:
            f1 = FUN1[name]
            a = args[0]
            return lambda env: f1(a(env))
        if len(args) == 2 and name == 'binom':
            a, b = args
            return lambda env: r_binom(a(env), b(env))
        raise Inconc('unknown-function:%s' % name)

    def _userfun(self, name, args):
        argnames, rhs = self.defs[name]
        if len(argnames) != len(args):
            raise Inconc('arity:%s' % name)

        def call(env):
            if self.depth > 6:
                raise Inconc('definition-recursion')
            body = self._defcache.get(name)
            if body is None:
                body = self._defcache[name] = self.compile(rhs)
            env2 = {}
            for n, a in zip(argnames, args):
                env2[n] = a(env)
            if '@base' in env:
                env2['@base'] = env['@base']
            self.depth += 1
            try:
                return body(env2)
            finally:
                self.depth -= 1
        return call

    # ---- integrals
    def _critical(self, body, var):
        """Sub-expressions whose zeros are singular points / kinks of `body` as a function of `var`."""
        out = []
        for t in subterms(body):
            if t.ty == OP and len(t.args) == 2:
                if t.op == '/':
                    out.append(t.args[1])
                elif t.op == '^':
                    ex = t.args[1]
                    if not (ex.ty == CONST and isinstance(ex.val, int) and ex.val >= 0):
                        out.append(t.args[0])
            elif t.ty == FUN and len(t.args) == 1:
                nm = str(t.func_name)
                if nm in ('abs', 'log', 'sqrt'):
                    out.append(t.args[0])
                elif nm in ('tan', 'sec'):
                    out.append(_Cos(t.args[0]))
                elif nm in ('cot', 'csc'):
                    out.append(_Sin(t.args[0]))
        # zeros of t ^ n (n a positive integer), of abs(t) and of -t are the zeros of t: these do not change sign there,
        # so look at t itself (a kink of (x ^ 2) ^ (1/2) is found as the sign change of x)
        for i, t in enumerate(out):
            while True:
                if isinstance(t, (_Cos, _Sin)):
                    break
                if t.ty == OP and t.op == '^' and len(t.args) == 2 and t.args[1].ty == CONST and \
                        isinstance(t.args[1].val, int) and t.args[1].val >= 1:
                    t = t.args[0]
                elif t.ty == OP and len(t.args) == 1:
                    t = t.args[0]
                elif t.ty == FUN and len(t.args) == 1 and str(t.func_name) == 'abs':
                    t = t.args[0]
                else:
                    break
            out[i] = t
        res = []
        seen = set()
        for t in out:
            k = str(t)
            if k in seen:
                continue
            seen.add(k)
            inner = t.arg if isinstance(t, (_Cos, _Sin)) else t
            if contains_ty(inner, (INTEGRAL, LIMIT, SUMMATION, DERIV, INDEFINITEINTEGRAL, EVAL_AT)):
                continue
            if var in free_vars(inner):
                res.append(t)
        return res[:8]

    def _compile_crit(self, t):
        if isinstance(t, _Cos):
            a = self.compile(t.arg)
            return lambda env: mp.cos(a(env))
        if isinstance(t, _Sin):
            a = self.compile(t.arg)
            return lambda env: mp.sin(a(env))
        return self.compile(t)

    def _split_points(self, crit, env, var, a, b):
        """Zeros (sign changes / exact zeros on a grid) of the critical sub-expressions inside (a, b)."""
        if not crit:
            return []
        fin_a, fin_b = mp.isfinite(a), mp.isfinite(b)

        def to_x(t):                      # t in (0,1) -> x in (a,b)
            if fin_a and fin_b:
                return a + (b - a) * t
            if fin_a:
                return a + t / (1 - t)
            if fin_b:
                return b - (1 - t) / t
            return (2 * t - 1) / (t * (1 - t))
        n = 40 + (7 if self.quad_variant else 0)
        ts = [mpf(i) / n for i in range(1, n)]
        xs = [to_x(t) for t in ts]
        pts = []
        old = env.get(var)
        try:
            for g in crit:
                vals = []
                for x in xs:
                    env[var] = x
                    try:
                        v = g(env)
                        v = v.real if isinstance(v, mpc) else v
                        if v != v or not mp.isfinite(v):
                            v = None
                    except (ZeroDivisionError, Inconc, ValueError, OverflowError, KeyError):
                        v = None
                    vals.append(v)
                for i, v in enumerate(vals):
                    if v is not None and v == 0:
                        pts.append(xs[i])
                for i in range(len(vals) - 1):
                    u, w = vals[i], vals[i + 1]
                    if u is None or w is None or u == 0 or w == 0:
                        continue
                    if (u < 0) != (w < 0):
                        lo, hi, flo = xs[i], xs[i + 1], u
                        for _ in range(int(mp.prec) + 8):
                            mid = (lo + hi) / 2
                            env[var] = mid
                            try:
                                fm = g(env)
                                fm = fm.real if isinstance(fm, mpc) else fm
                            except (ZeroDivisionError, Inconc, ValueError, OverflowError):
                                break
                            if fm == 0:
                                lo = hi = mid
                                break
                            if (fm < 0) == (flo < 0):
                                lo = mid
                            else:
                                hi = mid
                        pts.append((lo + hi) / 2)
        finally:
            if old is None:
                env.pop(var, None)
            else:
                env[var] = old
        pts = sorted(set(p for p in pts if a < p < b))
        # merge points that are numerically the same
        out = []
        for p in pts:
            if out and abs(p - out[-1]) <= mpf(10) ** (-(mp.dps - 6)) * (1 + abs(p)):
                continue
            out.append(p)
        if len(out) > 12:
            raise Inconc('too-many-singular-points')
        return out

    def _compile_integral(self, e):
        var = str(e.var)
        lo, hi, body = self.compile(e.lower), self.compile(e.upper), self.compile(e.body)
        crit = [self._compile_crit(t) for t in self._critical(e.body, var)]

        def integral(env):
            a, b = _chk_real(lo(env)), _chk_real(hi(env))
            if a != a or b != b:
                raise Inconc('nan-bound')
            if a == b:
                return mp.zero
            sign = 1
            if a > b:
                a, b, sign = b, a, -1
            for z in (a, b):
                if mp.isfinite(z) and abs(z) > mpf(10) ** 7:
                    raise Inconc('huge-range')
            if self.depth > 3:
                raise Inconc('nesting')
            pts = self._split_points(crit, env, var, a, b)
            if self.quad_variant:
                # an independent configuration: extra, different break points
                extra = []
                grid = [a] + pts + [b]
                for u, w in zip(grid, grid[1:]):
                    if mp.isfinite(u) and mp.isfinite(w):
                        extra.append(u + (w - u) * mpf(3) / 7)
                    elif mp.isfinite(u):
                        extra.append(u + mpf(13) / 7)
                    elif mp.isfinite(w):
                        extra.append(w - mpf(13) / 7)
                    else:
                        extra.append(mpf(2) / 7)
                pts = sorted(set(pts + extra))
            bad = [0]
            old = env.get(var)

            def g(x):
                env[var] = x
                try:
                    v = body(env)
                except ZeroDivisionError:
                    bad[0] += 1
                    return mp.zero
                if isinstance(v, mpc):
                    raise Inconc('nonreal')
                if v != v:
                    raise Inconc('nan-integrand')
                if not mp.isfinite(v):
                    bad[0] += 1
                    return mp.zero
                return v
            self.stats['quad'] += 1
            self.depth += 1
            try:
                v, err = mp.quad(g, [a] + pts + [b], error=True)
                # an improper integral only counts when the integrand visibly decays faster than 1/x: quadrature of a
                # divergent integral returns a huge number whose *relative* error estimate looks fine
                for z in (a, b):
                    if not mp.isfinite(z) and mp.isfinite(v):
                        sgn = 1 if z > 0 else -1
                        t1 = abs(g(sgn * mpf(10) ** 9)) * mpf(10) ** 9
                        t2 = abs(g(sgn * mpf(10) ** 15)) * mpf(10) ** 15
                        if t2 > t1 * (1 + mpf(10) ** (-6)) or t2 > mpf(10) ** (-3) * (1 + min(abs(v), mpf(10) ** 6)):
                            raise Inconc('improper-integrand-does-not-decay')
            finally:
                self.depth -= 1
                if old is None:
                    env.pop(var, None)
                else:
                    env[var] = old
            if bad[0] > 6:
                raise Inconc('integrand-poles')
            tol = self.quad_tol if self.quad_tol is not None else mpf(10) ** (-10)
            if not mp.isfinite(v) or err > tol * (1 + abs(v)):
                raise Inconc('quad-error')
            return sign * v
        return integral

    def _compile_antider(self, e):
        var = str(e.var)
        body = self.compile(e.body)
        crit = [self._compile_crit(t) for t in self._critical(e.body, var)]

        def antider(env):
            base = env.get('@base', self.base)
            if var not in base or var not in env:
                raise Inconc('antiderivative-without-base')
            a, b = base[var], env[var]
            if a == b:
                return mp.zero
            lo, hi = (a, b) if a < b else (b, a)
            if self._split_points(crit, env, var, lo, hi):
                raise Inconc('antiderivative-across-singularity')
            x_outer = env[var]

            def g(x):
                env[var] = x
                v = body(env)
                if isinstance(v, mpc):
                    raise Inconc('nonreal')
                return v
            self.stats['quad'] += 1
            try:
                v, err = mp.quad(g, [a, b], error=True)
            finally:
                env[var] = x_outer
            if not mp.isfinite(v) or err > mpf(10) ** (-10) * (1 + abs(v)):
                raise Inconc('quad-error')
            return v
        return antider

    # ---- evaluation brackets, limits
    def _at_point(self, body, env, var, pt, side_hint):
        """Value of body at var = pt, by a one-sided limit when pt is infinite or the direct value fails."""
        if mp.isfinite(pt):
            old = env.get(var)
            env[var] = pt
            try:
                v = _chk_real(body(env))
                if mp.isfinite(v):
                    return v
            except (ZeroDivisionError, Inconc):
                pass
            finally:
                if old is None:
                    env.pop(var, None)
                else:
                    env[var] = old
        return self._limit(body, env, var, pt, side_hint)

    def _compile_evalat(self, e):
        var = str(e.var)
        lo, hi, body = self.compile(e.lower), self.compile(e.upper), self.compile(e.body)

        def evalat(env):
            a, b = _chk_real(lo(env)), _chk_real(hi(env))
            if a == b:
                return mp.zero
            # the bracket belongs to an integral over [a,b]: approach the end points from inside
            up = self._at_point(body, env, var, b, '-' if a < b else '+')
            low = self._at_point(body, env, var, a, '+' if a < b else '-')
            return up - low
        return evalat

    def _limit(self, body, env, var, pt, side):
        """Numerical limit of body as var -> pt (side '+', '-' or None = both must agree)."""
        self.stats['limit'] += 1
        if pt != pt:
            raise Inconc('nan-limit-point')
        if mp.isinf(pt):
            sides = ['+' if pt < 0 else '-']     # approached from the finite side
        else:
            sides = [side] if side in ('+', '-') else ['+', '-']
        res = []
        old = env.get(var)
        dps = mp.dps
        try:
            for sd in sides:
                vals = []
                with mp.workdps(dps + 50):
                    for k in (8, 16, 32):
                        if mp.isinf(pt):
                            x = mpf(10) ** k if pt > 0 else -mpf(10) ** k
                        else:
                            h = mpf(10) ** (-k)
                            x = +pt + h if sd == '+' else +pt - h
                        env[var] = x
                        try:
                            v = _chk_real(body(env))
                        except ZeroDivisionError:
                            raise Inconc('limit-pole')
                        if not mp.isfinite(v):
                            raise Inconc('limit-nonfinite')
                        vals.append(+v)
                v8, v16, v32 = vals
                scale = 1 + abs(v32)
                if abs(v16 - v32) > mpf(10) ** (-9) * scale or abs(v8 - v32) > mpf(10) ** (-4) * scale:
                    raise Inconc('limit-not-converged')
                res.append(+v32)
        finally:
            if old is None:
                env.pop(var, None)
            else:
                env[var] = old
        if len(res) == 2 and abs(res[0] - res[1]) > mpf(10) ** (-9) * (1 + abs(res[0])):
            raise Inconc('limit-two-sided-differs')
        return res[0]

    def _compile_limit(self, e):
        var = str(e.var)
        lim = self.compile(e.lim)
        body_e = e.body
        drt = e.drt
        # integrals whose bound is exactly the limit variable and whose integrand does not mention it:
        # take the improper integral directly
        direct = _only_as_bound(body_e, var)
        body = self.compile(body_e)

        def limit(env):
            pt = _chk_real(lim(env))
            if direct:
                old = env.get(var)
                env[var] = pt
                try:
                    return body(env)
                finally:
                    if old is None:
                        env.pop(var, None)
                    else:
                        env[var] = old
            return self._limit(body, env, var, pt, drt)
        return limit

    # ---- derivative
    def _compile_deriv(self, e):
        var = str(e.var)
        body = self.compile(e.body)

        def deriv(env):
            x0 = env[var]
            self.stats['diff'] += 1

            def g(x):
                env[var] = x
                return _chk_real(body(env))
            try:
                return mp.diff(g, x0)
            finally:
                env[var] = x0
        return deriv

    # ---- sums
    def _compile_sum(self, e):
        var = str(e.index_var)
        lo, hi, body = self.compile(e.lower), self.compile(e.upper), self.compile(e.body)

        def summation(env):
            a, b = _chk_real(lo(env)), _chk_real(hi(env))
            if not mp.isint(a) or not (mp.isint(b) or b == mp.inf):
                raise Inconc('sum-bounds')
            old = env.get(var)

            def term(k):
                env[var] = mpf(k)
                return _chk_real(body(env))
            try:
                if b == mp.inf:
                    self.stats['nsum'] += 1
                    if self.depth > 2:
                        raise Inconc('nesting')
                    self.depth += 1
                    try:
                        s1 = mp.nsum(term, [int(a), mp.inf])
                        s2 = mp.nsum(term, [int(a), mp.inf], method='s' if not self.quad_variant else 'l')
                    finally:
                        self.depth -= 1
                    if not (mp.isfinite(s1) and mp.isfinite(s2)) or \
                            abs(s1 - s2) > mpf(10) ** (-10) * (1 + abs(s1)):
                        raise Inconc('nsum-methods-differ')
                    return s1
                n = int(b) - int(a) + 1
                if n <= 0:
                    return mp.zero
                if n > self.max_sum_terms:
                    raise Inconc('sum-too-long')
                return mp.fsum(term(k) for k in range(int(a), int(b) + 1))
            finally:
                if old is None:
                    env.pop(var, None)
                else:
                    env[var] = old
        return summation


class _Cos:
    def __init__(self, arg):
        self.arg = arg

    def __str__(self):
        return 'cos#(%s)' % self.arg


class _Sin:
    def __init__(self, arg):
        self.arg = arg

    def __str__(self):
        return 'sin#(%s)' % self.arg


def _only_as_bound(body, var):
    """True when `var` occurs in body only as a whole lower/upper bound of integrals (never inside an integrand
    or inside an arithmetic expression)."""
    found = [False]

    def rec(t):
        if t.ty == VAR:
            return t.name != var
        if t.ty == INTEGRAL:
            ok = True
            for bnd in (t.lower, t.upper):
                if bnd.ty == VAR and bnd.name == var:
                    found[0] = True
                else:
                    ok = ok and rec(bnd)
            if t.var == var:
                return ok
            return ok and rec(t.body)
        if t.ty in (OP, FUN):
            return all(rec(c) for c in t.args)
        # any other context: the variable must not occur at all
        return var not in free_vars(t)
    ok = rec(body)
    return ok and found[0]


# ------------------------------------------------------------------------------------------- comparisons
def close(a, b, rel=None):
    rel = mpf(10) ** (-6) if rel is None else rel
    return abs(a - b) <= rel * (1 + max(abs(a), abs(b)))
