"""Driver:  python -m vlib.main <ID> [--tier quick|thorough] [--replay FILE] [--seed N] [--procs N]

exit 0  property held on everything explored (KNOWN-FINDING lines allowed)
exit 1  at least one line  VIOLATION property=<ID> replay=<path>
exit 2  harness error (import failure, oracle self-test failure, crash in the harness)
"""
import argparse
import glob
import importlib
import json
import multiprocessing
import os
import sys
import time
import traceback

from vlib import harness
from vlib.harness import Ctx, VERIF, canon

PROPS = {
    'C01': 'props.c01_kernel', 'C02': 'props.c02_checker', 'C03': 'props.c03_terms',
    'C04': 'props.c04_macros', 'C05': 'props.c05_arith', 'C06': 'props.c06_solvers',
    'C07': 'props.c07_roundtrip', 'C08': 'props.c08_infertype', 'C09': 'props.c09_matcher',
    'C10': 'props.c10_conv', 'C11': 'props.c11_items', 'C12': 'props.c12_load',
    'C13': 'props.c13_edit', 'C14': 'props.c14_suggest', 'C15': 'props.c15_sat',
    'C16': 'props.c16_linear', 'C17': 'props.c17_congc', 'C18': 'props.c18_verit',
    'C19': 'props.c19_integral', 'C20': 'props.c20_imperative',
}

_mod = None


def _worker(args):
    desc, seed, tier, pid = args
    H = Ctx(pid, tier, seed)
    try:
        _mod.run_shard(desc, seed, tier, H)
    except Exception:
        return {'error': traceback.format_exc(), 'desc': desc}
    return H.dump()


def sig_file(sig):
    import re
    s = re.sub(r'[^A-Za-z0-9_.=-]+', '_', sig)[:100]
    return s + '-' + format(harness.digest(sig) & 0xffffff, '06x')


def main(argv=None):
    global _mod
    ap = argparse.ArgumentParser()
    ap.add_argument('pid')
    ap.add_argument('--tier', default=os.environ.get('VERIF_TIER', 'quick'), choices=['quick', 'thorough'])
    ap.add_argument('--replay')
    ap.add_argument('--seed', type=int, default=int(os.environ.get('VERIF_SEED', '1') or 1))
    ap.add_argument('--procs', type=int, default=int(os.environ.get('VERIF_PROCS', '16')))
    ap.add_argument('--no-shrink', action='store_true')
    ap.add_argument('--only', help='substring filter on shard descriptors (debugging)')
    a = ap.parse_args(argv)
    pid = a.pid.upper()
    t0 = time.time()
    if pid not in PROPS:
        print('unknown property', pid)
        return 2
    try:
        _mod = importlib.import_module(PROPS[pid])
        _mod.setup()
    except harness.SelfTestError as e:
        print('HARNESS-ERROR self-test failed:', e)
        return 2
    except Exception:
        traceback.print_exc()
        print('HARNESS-ERROR setup failed')
        return 2

    known_open, known_fixed = harness.load_known(pid)

    # ---- replay mode: one file, no exploration -------------------------------------
    if a.replay:
        with open(a.replay) as f:
            data = json.load(f)
        case = data['case'] if isinstance(data, dict) and 'case' in data else data
        H = Ctx(pid, a.tier, a.seed)
        try:
            _mod.run_case(case, H)
        except harness.CaseInvalid as e:
            print('HARNESS-ERROR invalid replay case:', e)
            return 2
        rc = 0
        for sig, v in H.violations.items():
            if sig in known_open:
                print('KNOWN-FINDING: property=%s %s %s' % (pid, sig, known_open[sig].get('what', '')[:160]))
            else:
                print('VIOLATION property=%s replay=%s' % (pid, a.replay))
                print('  signature:', sig)
                print('  detail:', v['detail'])
                rc = 1
        if not H.violations:
            print('replay: no violation')
        return rc

    M = Ctx(pid, a.tier, a.seed)

    # ---- replay tier: committed replays first ----------------------------------------
    replayed = 0
    for path in sorted(glob.glob(os.path.join(VERIF, 'replays', pid, '*.json')) +
                       glob.glob(os.path.join(VERIF, 'regressions', pid, '*.json'))):
        try:
            with open(path) as f:
                data = json.load(f)
            case = data['case'] if isinstance(data, dict) and 'case' in data else data
            H = Ctx(pid, a.tier, a.seed)
            _mod.run_case(case, H)
            replayed += 1
            M.merge(H.dump())
        except harness.CaseInvalid:
            M.note('replay_invalid')
        except Exception:
            traceback.print_exc()
            print('HARNESS-ERROR replaying', path)
            return 2
    M.note('replays_run', replayed)

    # ---- exploration -----------------------------------------------------------------
    descs = _mod.shards(a.tier)
    if a.only:
        descs = [d for d in descs if a.only in canon(d)]
    jobs = [(d, a.seed * 1000 + i, a.tier, pid) for i, d in enumerate(descs)]
    procs = max(1, min(a.procs, len(jobs)))
    results = []
    if procs == 1:
        results = [_worker(j) for j in jobs]
    else:
        ctx = multiprocessing.get_context('fork')
        with ctx.Pool(procs, maxtasksperchild=getattr(_mod, 'MAXTASKS', None)) as pool:
            results = pool.map(_worker, jobs, chunksize=1)
    for r in results:
        if 'error' in r:
            print(r['error'])
            print('HARNESS-ERROR in shard', r['desc'])
            return 2
        M.merge(r)

    # ---- violations: known / new --------------------------------------------------------
    rc = 0
    lines = []
    new_viol = 0
    for sig in sorted(M.violations):
        v = M.violations[sig]
        if sig in known_open:
            e = known_open[sig]
            lines.append('KNOWN-FINDING: property=%s %s (%d cases) %s' % (pid, sig, v['count'], e.get('what', '')[:160]))
            M.excluded_known += v['count']
            continue
        new_viol += 1
        case = v['case']
        if not a.no_shrink and hasattr(_mod, 'run_case'):
            def pred(c, sig=sig):
                h = Ctx(pid, a.tier, a.seed)
                _mod.run_case(c, h)
                return sig in h.violations
            try:
                if pred(case):
                    case, calls = harness.shrink_json(case, pred, budget=getattr(_mod, 'SHRINK_BUDGET', 300),
                                                      seconds=getattr(_mod, 'SHRINK_SECONDS', 60))
                    h = Ctx(pid, a.tier, a.seed)
                    _mod.run_case(case, h)
                    if sig in h.violations:
                        v = dict(v, case=case, detail=h.violations[sig]['detail'])
            except Exception:
                traceback.print_exc()
        d = os.path.join(os.environ.get('VERIF_OUT_DIR', VERIF), 'replays', pid)
        os.makedirs(d, exist_ok=True)
        path = os.path.join(d, sig_file(sig) + '.json')
        with open(path, 'w') as f:
            json.dump({'property': pid, 'signature': sig, 'detail': v['detail'], 'seed': a.seed,
                       'tier': a.tier, 'case': v['case']}, f, indent=1, sort_keys=True, default=str)
        lines.append('VIOLATION property=%s replay=%s' % (pid, os.path.relpath(path, VERIF) if path.startswith(VERIF) else path))
        lines.append('  signature: %s   (%d cases)' % (sig, v['count']))
        lines.append('  detail: %s' % v['detail'][:600])
        rc = 1

    # ---- evidence ------------------------------------------------------------------------
    wall = time.time() - t0
    samples = []
    for k in sorted(M.samples):
        for c in M.samples[k]:
            samples.append({'class': k, 'case': c})
    samples = samples[:24]
    if not samples:
        samples = [{'class': 'none', 'case': None}]
    ev = {
        'property_id': pid, 'tier': a.tier, 'seed': a.seed, 'level': 'exploration',
        'coverage': {
            'evaluations': M.evaluations,
            'distinct_nontrivial': len(M.nontrivial) + M.nontrivial_bulk,
            'rule': _mod.RULE,
            'samples': samples,
            'classes': dict(sorted(M.classes.items())),
            'inconclusive': dict(sorted(M.inconclusive.items())),
            'notes': dict(sorted(M.notes.items())),
            'excluded_known': M.excluded_known,
            'known_findings_seen': sorted(s for s in M.violations if s in known_open),
            'new_violation_signatures': sorted(s for s in M.violations if s not in known_open),
            'shards': len(jobs),
            'exhaustive': bool(M.exhaustive) and getattr(_mod, 'EXHAUSTIVE_ONLY', False),
            'exhaustive_subdomains': sorted(set(M.exhaustive)),
        },
        'assumptions': list(getattr(_mod, 'ASSUMPTIONS', [])),
        'wall_s': round(wall, 2),
        'violations': new_viol,
    }
    evdir = os.path.join(os.environ.get('VERIF_OUT_DIR', VERIF), 'evidence')
    os.makedirs(evdir, exist_ok=True)
    with open(os.path.join(evdir, pid + '.json'), 'w') as f:
        json.dump(ev, f, indent=1, sort_keys=True, default=str)

    for l in lines:
        print(l)
    print('%s tier=%s seed=%d evaluations=%d distinct_nontrivial=%d inconclusive=%d new_violations=%d known=%d wall=%.1fs' % (
        pid, a.tier, a.seed, M.evaluations, len(M.nontrivial) + M.nontrivial_bulk,
        sum(M.inconclusive.values()), new_viol, len([s for s in M.violations if s in known_open]), wall))
    if M.evaluations == 0 or len(M.nontrivial) + M.nontrivial_bulk < 2:
        print('HARNESS-ERROR: nothing non-trivial explored')
        return 2
    return rc


if __name__ == '__main__':
    sys.exit(main())
