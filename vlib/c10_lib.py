"""Generators and independent oracles for C10 (props/c10_conv.py).

Abstract arithmetic expressions (E), rendered to codec JSON terms of kind nat / int / real:
  ["v", name] | ["n", k] | ["q", p, q] (reduced fraction numeral, sign allowed) | ["rawq", p, q] (numeral / numeral)
  | ["neg", E] | ["+", E, E] | ["-", E, E] | ["*", E, E] | ["/", E, E] | ["S", E] | ["^", E, k] | ["f", E]
  | ["ofnat", Enat]
Propositional formulas (F):
  ["A", name] | ["T"] | ["F"] | ["not", F] | ["and", F, F] | ["or", F, F] | ["imp", F, F] | ["iff", F, F]

Oracles (none of them calls /repo code; they read terms in vlib.ref's named form):
  poly_of_ref      polynomial (dict monomial -> Fraction) of an arithmetic term over nat or int/real
  bool_eval_ref    truth value of a propositional term under an assignment
  members_ref      flattened set of conjuncts / disjuncts
  fu_lookup / fu_table   denotation of fun_upd chains with numeral keys
"""
import json
from fractions import Fraction

from hypothesis import strategies as st

from vlib import ref, gen
from vlib.codec import BOOL, fun
from vlib.libsig import numeral

NAT = ["tc", "nat"]
INT = ["tc", "int"]
REAL = ["tc", "real"]
TY = {'nat': NAT, 'int': INT, 'real': REAL, 'bool': BOOL}


# ------------------------------------------------------------------------------------------ JSON builders
def C(name, T):
    return ["c", name, T]


def V(name, T):
    return ["v", name, T]


def app(f, *args):
    for a in args:
        f = ["app", f, a]
    return f


def binop(name, T, a, b):
    return app(C(name, fun(T, T, T)), a, b)


def rel(name, T, a, b):
    return app(C(name, fun(T, T, BOOL)), a, b)


def eq(T, a, b):
    return rel('equals', T, a, b)


def neg(a):
    return app(C('neg', fun(BOOL, BOOL)), a)


def conj(a, b):
    return binop('conj', BOOL, a, b)


def disj(a, b):
    return binop('disj', BOOL, a, b)


def implies(a, b):
    return binop('implies', BOOL, a, b)


def num(T, x):
    """Numeral in holpy's normal form for an int / Fraction x."""
    x = Fraction(x)
    if x < 0:
        return app(C('uminus', fun(T, T)), num(T, -x))
    if x.denominator != 1:
        return binop('real_divide', T, numeral(T, x.numerator), numeral(T, x.denominator))
    return numeral(T, int(x))


def render(e, kind):
    T = TY[kind]
    op = e[0]
    if op == 'v':
        return V(e[1], T)
    if op == 'n':
        return numeral(T, e[1])
    if op == 'q':
        return num(T, Fraction(e[1], e[2]))
    if op == 'rawq':
        return binop('real_divide', T, numeral(T, e[1]), numeral(T, e[2]))
    if op == 'neg':
        return app(C('uminus', fun(T, T)), render(e[1], kind))
    if op in ('+', '-', '*'):
        return binop({'+': 'plus', '-': 'minus', '*': 'times'}[op], T, render(e[1], kind), render(e[2], kind))
    if op == '/':
        return binop('real_divide', T, render(e[1], kind), render(e[2], kind))
    if op == 'S':
        return app(C('Suc', fun(NAT, NAT)), render(e[1], kind))
    if op == '^':
        return app(C('power', fun(T, NAT, T)), render(e[1], kind), numeral(NAT, e[2]))
    if op == 'f':
        return app(V('f', fun(T, T)), render(e[1], kind))
    if op == 'ofnat':
        return app(C('of_nat', fun(NAT, T)), render(e[1], 'nat'))
    if op == 'a-':      # opaque atom: truncated difference of two variables
        return binop('minus', T, V(e[1], T), V(e[2], T))
    if op == 'a^':      # opaque atom: power of a variable (nat.norm_full works with plus and times only)
        return app(C('power', fun(T, NAT, T)), V(e[1], T), numeral(NAT, e[2]))
    raise ValueError('bad expression %r' % (e,))


def render_prop(f):
    op = f[0]
    if op == 'A':
        return V(f[1], BOOL)
    if op == 'T':
        return C('true', BOOL)
    if op == 'F':
        return C('false', BOOL)
    if op == 'not':
        return neg(render_prop(f[1]))
    if op in ('and', 'or', 'imp'):
        return binop({'and': 'conj', 'or': 'disj', 'imp': 'implies'}[op], BOOL, render_prop(f[1]), render_prop(f[2]))
    if op == 'iff':
        return eq(BOOL, render_prop(f[1]), render_prop(f[2]))
    raise ValueError('bad formula %r' % (f,))


def e_size(e):
    return 1 + sum(e_size(x) for x in e[1:] if isinstance(x, list))


def e_vars(e, acc=None):
    acc = [] if acc is None else acc
    if e[0] == 'v':
        if e[1] not in acc:
            acc.append(e[1])
    for x in e[1:]:
        if isinstance(x, list):
            e_vars(x, acc)
    return acc


# ------------------------------------------------------------------------------------------ polynomials
class NotPoly(Exception):
    pass


def p_const(c):
    c = Fraction(c)
    return {(): c} if c != 0 else {}


def p_atom(key):
    return {((key, 1),): Fraction(1)}


def p_add(a, b):
    r = dict(a)
    for m, c in b.items():
        v = r.get(m, 0) + c
        if v == 0:
            r.pop(m, None)
        else:
            r[m] = v
    return r


def p_scale(a, c):
    c = Fraction(c)
    return {m: v * c for m, v in a.items()} if c != 0 else {}


def _m_mul(m1, m2):
    d = dict(m1)
    for k, e in m2:
        d[k] = d.get(k, 0) + e
    return tuple(sorted(d.items()))


def p_mul(a, b):
    r = {}
    for m1, c1 in a.items():
        for m2, c2 in b.items():
            m = _m_mul(m1, m2)
            v = r.get(m, 0) + c1 * c2
            if v == 0:
                r.pop(m, None)
            else:
                r[m] = v
    return r


def p_pow(a, k):
    r = p_const(1)
    for _ in range(k):
        r = p_mul(r, a)
        if len(r) > 400:
            raise NotPoly('too large')
    return r


def p_is_const(a):
    return all(m == () for m in a)


def p_show(a):
    if not a:
        return '0'
    out = []
    for m, c in sorted(a.items()):
        out.append('%s%s' % (c, ''.join('*%s^%d' % (k, e) for k, e in m)))
    return ' + '.join(out)


def poly_of_e(e):
    """Polynomial of an abstract expression (used by the generator only)."""
    op = e[0]
    if op == 'v':
        return p_atom('v:' + e[1])
    if op == 'n':
        return p_const(e[1])
    if op in ('q', 'rawq'):
        if e[2] == 0:
            raise NotPoly('x/0')
        return p_const(Fraction(e[1], e[2]))
    if op == 'neg':
        return p_scale(poly_of_e(e[1]), -1)
    if op == '+':
        return p_add(poly_of_e(e[1]), poly_of_e(e[2]))
    if op == '-':
        return p_add(poly_of_e(e[1]), p_scale(poly_of_e(e[2]), -1))
    if op == '*':
        return p_mul(poly_of_e(e[1]), poly_of_e(e[2]))
    if op == '/':
        d = poly_of_e(e[2])
        if not p_is_const(d) or not d:
            raise NotPoly('division by a non-constant')
        return p_scale(poly_of_e(e[1]), 1 / d[()])
    if op == 'S':
        return p_add(poly_of_e(e[1]), p_const(1))
    if op == '^':
        return p_pow(poly_of_e(e[1]), e[2])
    if op == 'f':
        return p_atom('f:' + json.dumps(e[1]))
    if op in ('a-', 'a^'):
        return p_atom(json.dumps(e))
    raise NotPoly(op)


# -- reading numerals / polynomials off terms in ref's named form ------------------------------------------
def _r_binary(t):
    bits = []
    while True:
        if t[0] == 'const':
            if t[1] == 'zero':
                v = 0
            elif t[1] == 'one':
                v = 1
            else:
                return None
            break
        if t[0] == 'app' and t[1][0] == 'const' and t[1][1] in ('bit0', 'bit1'):
            bits.append(1 if t[1][1] == 'bit1' else 0)
            t = t[2]
        else:
            return None
    for b in reversed(bits):
        v = 2 * v + b
    return v


def r_head_args(t):
    args = []
    while t[0] == 'app':
        args.append(t[2])
        t = t[1]
    return t, list(reversed(args))


def r_nat_numeral(t):
    """Value of zero / one / of_nat <binary> (any numeric type), else None."""
    if t[0] == 'const' and t[1] in ('zero', 'one'):
        return 0 if t[1] == 'zero' else 1
    if t[0] == 'app' and t[1][0] == 'const' and t[1][1] == 'of_nat':
        return _r_binary(t[2])
    return None


def r_type_name(T):
    if T[0] == 'tc' and not T[2] and T[1] in ('nat', 'int', 'real', 'bool'):
        return T[1]
    return None


def poly_of_ref(t, kind):
    """Polynomial denoted by a term of numeric kind `kind` ('nat' | 'int' | 'real'); every subterm that is not
    built from + * (Suc | - uminus / by a non-zero constant) numerals and natural-numeral powers is an atom."""
    n = r_nat_numeral(t)
    if n is not None:
        return p_const(n)
    h, args = r_head_args(t)
    if h[0] == 'const':
        nm = h[1]
        if nm in ('plus', 'times') and len(args) == 2:
            a, b = poly_of_ref(args[0], kind), poly_of_ref(args[1], kind)
            return p_add(a, b) if nm == 'plus' else p_mul(a, b)
        if nm == 'Suc' and len(args) == 1 and kind == 'nat':
            return p_add(poly_of_ref(args[0], kind), p_const(1))
        if kind != 'nat':
            if nm == 'minus' and len(args) == 2:
                return p_add(poly_of_ref(args[0], kind), p_scale(poly_of_ref(args[1], kind), -1))
            if nm == 'uminus' and len(args) == 1:
                return p_scale(poly_of_ref(args[0], kind), -1)
        if kind == 'real' and nm == 'real_divide' and len(args) == 2:
            d = poly_of_ref(args[1], kind)
            if d and p_is_const(d):
                return p_scale(poly_of_ref(args[0], kind), 1 / d[()])
        if nm == 'power' and len(args) == 2 and kind != 'nat':
            T = h[2]
            if ref.is_fun(T) and ref.is_fun(T[2][1]) and r_type_name(T[2][1][2][0]) == 'nat':
                k = r_nat_numeral(args[1])
                if k is not None and k <= 12:
                    return p_pow(poly_of_ref(args[0], kind), k)
    return p_atom(repr(ref.canon(t)))


# ------------------------------------------------------------------------------------------ propositional oracle
class NotProp(Exception):
    pass


def bool_eval_ref(t, env):
    """Truth value of a propositional term (named form); env: variable name -> bool."""
    tag = t[0]
    if tag == 'var':
        if t[2] != ref.BOOL or t[1] not in env:
            raise NotProp('variable')
        return env[t[1]]
    if tag == 'const':
        if t[1] == 'true':
            return True
        if t[1] == 'false':
            return False
        raise NotProp('constant ' + t[1])
    h, args = r_head_args(t)
    if h[0] != 'const':
        raise NotProp('head')
    nm = h[1]
    if nm == 'neg' and len(args) == 1:
        return not bool_eval_ref(args[0], env)
    if nm in ('conj', 'disj', 'implies') and len(args) == 2:
        a, b = bool_eval_ref(args[0], env), bool_eval_ref(args[1], env)
        return (a and b) if nm == 'conj' else (a or b) if nm == 'disj' else ((not a) or b)
    if nm == 'equals' and len(args) == 2 and h[2] == ref.tfun(ref.BOOL, ref.tfun(ref.BOOL, ref.BOOL)):
        return bool_eval_ref(args[0], env) == bool_eval_ref(args[1], env)
    raise NotProp('operator ' + nm)


def bool_vars_ref(t, acc=None):
    acc = set() if acc is None else acc
    for v in ref.free_vars(t):
        if v[0] == 'var' and v[2] == ref.BOOL:
            acc.add(v[1])
    return acc


def prop_refute(lhs, rhs, hyps=()):
    """(env | None, status): an assignment with all hyps true under which lhs and rhs differ.
    status in 'refuted' | 'agree' | 'unknown'."""
    import itertools
    names = set()
    for t in (lhs, rhs) + tuple(hyps):
        bool_vars_ref(t, names)
    names = sorted(names)
    if len(names) > 10:
        return None, 'unknown'
    try:
        for bits in itertools.product([False, True], repeat=len(names)):
            env = dict(zip(names, bits))
            if all(bool_eval_ref(h, env) for h in hyps) and bool_eval_ref(lhs, env) != bool_eval_ref(rhs, env):
                return env, 'refuted'
    except NotProp:
        return None, 'unknown'
    return None, 'agree'


def members_ref(t, opname):
    """Canonical forms of the leaves of the maximal tree of `opname` (conj | disj) at the root of t."""
    out = []
    stack = [t]
    while stack:
        u = stack.pop()
        h, args = r_head_args(u)
        if h[0] == 'const' and h[1] == opname and len(args) == 2:
            stack.append(args[1])
            stack.append(args[0])
        else:
            out.append(repr(ref.canon(u)))
    return out


# ------------------------------------------------------------------------------------------ fun_upd oracle
def fu_strip(t):
    """f (a1 := b1) ... (an := bn) -> (f, [(a1, b1), ...]) on named terms."""
    ups = []
    while True:
        h, args = r_head_args(t)
        if h[0] == 'const' and h[1] == 'fun_upd' and len(args) == 3:
            ups.append((args[1], args[2]))
            t = args[0]
        else:
            break
    return t, list(reversed(ups))


def fu_value(t):
    """Symbolic value of a nat-valued term: ('num', n) for numerals, lookups through fun_upd chains with numeral
    keys, beta-reduction of a lambda base; otherwise ('atom', canonical form)."""
    n = r_nat_numeral(t)
    if n is not None:
        return ('num', n)
    h0, args0 = r_head_args(t)
    if h0[0] == 'const' and h0[1] in ('plus', 'times') and len(args0) == 2:
        a, b = fu_value(args0[0]), fu_value(args0[1])
        if a[0] == 'num' and b[0] == 'num':
            return ('num', a[1] + b[1] if h0[1] == 'plus' else a[1] * b[1])
        return ('atom', repr(ref.canon(t)))
    if h0[0] == 'const' and h0[1] == 'Suc' and len(args0) == 1:
        a = fu_value(args0[0])
        return ('num', a[1] + 1) if a[0] == 'num' else ('atom', repr(ref.canon(t)))
    if t[0] == 'app':
        f, c = t[1], t[2]
        base, ups = fu_strip(f)
        if ups:
            kc = r_nat_numeral(c)
            for a, b in reversed(ups):
                ka = r_nat_numeral(a)
                if ref.canon(a) == ref.canon(c):
                    return fu_value(b)
                if ka is None or kc is None:
                    return ('atom', repr(ref.canon(t)))
                # distinct numerals: skip this update
            return fu_value(('app', base, c))
        if f[0] == 'lam':
            try:
                return fu_value(ref.beta_norm(t))
            except ref.RefError:
                pass
    return ('atom', repr(ref.canon(t)))


def fu_table(t):
    """Denotation of a function term: (base canonical form, {numeral key: value}) or None."""
    base, ups = fu_strip(t)
    tab = {}
    for a, b in ups:
        k = r_nat_numeral(a)
        if k is None:
            return None
        tab[k] = fu_value(b)
    return base, tab


# ------------------------------------------------------------------------------------------ strategies: arithmetic
VARS = ['x', 'y', 'z', 'a', 'ab', 'x1']


def arith_exprs(kind, nvars=3, max_leaves=8, ground=False, ops=None, big=False, fvar=False, names=None):
    """Abstract expressions of the given kind."""
    names = (names or VARS)[:nvars]
    nums = st.sampled_from([0, 1, 1, 2, 2, 3, 4, 5, 7, 10, 12, 20] if not big else [0, 1, 2, 3, 9, 17, 100, 255, 256, 1000, 12345])
    leaves = [nums.map(lambda k: ['n', k])]
    if not ground:
        leaves += [st.sampled_from(names).map(lambda n: ['v', n])] * 2
    if kind == 'real':
        leaves.append(st.tuples(st.sampled_from([1, 1, 2, 3, 5, -1, -2, -3]), st.sampled_from([2, 3, 4, 6])).map(
            lambda pq: ['q', Fraction(pq[0], pq[1]).numerator, Fraction(pq[0], pq[1]).denominator]))
    if kind in ('int', 'real'):
        leaves.append(st.sampled_from([-1, -1, -2, -3, -10]).map(lambda k: ['q', k, 1]))
    if kind == 'nat' and not ground and ops is None and len(names) >= 2:
        leaves.append(st.one_of(
            st.tuples(st.just('a-'), st.sampled_from(names), st.sampled_from(names)).map(list),
            st.tuples(st.just('a^'), st.sampled_from(names), st.sampled_from([2, 2, 3])).map(list)))
    if ops is None:
        ops = {'nat': ['+', '+', '*', '*', 'S'], 'int': ['+', '+', '-', '*', '*', 'neg', '^'],
               'real': ['+', '+', '-', '*', '*', 'neg', '^', '/c']}[kind]

    def ext(ch):
        alts = []
        for op in ops:
            if op in ('+', '-', '*', '/'):
                alts.append(st.tuples(st.just(op), ch, ch).map(list))
            elif op in ('neg', 'S'):
                alts.append(st.tuples(st.just(op), ch).map(list))
            elif op == '^':
                alts.append(st.tuples(st.just('^'), ch, st.sampled_from([0, 1, 2, 2, 3, 4])).map(list))
            elif op == '/c':
                alts.append(st.tuples(st.just('/'), ch, st.sampled_from([['n', 2], ['n', 3], ['n', 4], ['q', -2, 1], ['q', 1, 2], ['n', 1]])).map(list))
            elif op == 'f':
                alts.append(st.tuples(st.just('f'), st.sampled_from(names).map(lambda n: ['v', n])).map(list))
        if fvar and 'f' not in ops:
            alts.append(st.tuples(st.just('f'), st.sampled_from(names).map(lambda n: ['v', n])).map(list))
        return st.one_of(alts)
    return st.recursive(st.one_of(leaves), ext, max_leaves=max_leaves)


def _is_zero(e):
    return e == ['n', 0]


@st.composite
def rearranged(draw, e, kind, depth=0):
    """A rendering of the same polynomial as e: children are rearranged recursively and one drawn identity of
    commutative (semi)rings is applied at the root."""
    op = e[0]
    ring = kind != 'nat'
    if op in ('+', '*', '-', '/') and depth < 6:
        a = draw(rearranged(e[1], kind, depth + 1))
        b = draw(rearranged(e[2], kind, depth + 1)) if op != '/' else e[2]
        e = [op, a, b]
    elif op in ('neg', 'S') and depth < 6:
        e = [op, draw(rearranged(e[1], kind, depth + 1))]
    elif op == '^' and depth < 6:
        e = ['^', draw(rearranged(e[1], kind, depth + 1)), e[2]]
    moves = ['id', 'id', 'unit']
    if op in ('+', '*'):
        moves += ['comm', 'comm', 'assoc']
    if op == '*':
        moves += ['distrib', 'distrib']
    if op == '+':
        moves += ['factor']
    if op == 'S':
        moves += ['suc', 'suc']
    if op == 'n' and e[1] >= 2:
        moves += ['split', 'split']
    if op in ('v', 'f'):
        moves += ['id', 'id']
    if op == '^':
        moves += ['unpow', 'unpow']
    if ring:
        if op == '-':
            moves += ['sub', 'sub', 'subneg']
        if op == 'neg':
            moves += ['negmul', 'negneg']
        moves += ['dneg'] if depth > 0 and op in ('v', '+') else []
    if kind == 'real' and op == '/':
        moves += ['divmul', 'divmul']
    mv = draw(st.sampled_from(moves))
    if mv == 'id':
        return e
    if mv == 'comm':
        return [op, e[2], e[1]]
    if mv == 'assoc':
        if e[1][0] == op:
            return [op, e[1][1], [op, e[1][2], e[2]]]
        if e[2][0] == op:
            return [op, [op, e[1], e[2][1]], e[2][2]]
        return e
    if mv == 'distrib':
        if e[2][0] == '+':
            return ['+', ['*', e[1], e[2][1]], ['*', e[1], e[2][2]]]
        if e[1][0] == '+':
            return ['+', ['*', e[1][1], e[2]], ['*', e[1][2], e[2]]]
        return e
    if mv == 'factor':
        # a + a -> a * 2 | 2 * a ;  a*b + a*c -> a * (b + c)
        if e[1] == e[2]:
            return ['*', e[1], ['n', 2]] if draw(st.booleans()) else ['*', ['n', 2], e[1]]
        if e[1][0] == '*' and e[2][0] == '*' and e[1][1] == e[2][1]:
            return ['*', e[1][1], ['+', e[1][2], e[2][2]]]
        return e
    if mv == 'unit':
        k = draw(st.integers(0, 5))
        if k == 0:
            return ['+', e, ['n', 0]]
        if k == 1:
            return ['+', ['n', 0], e]
        if k == 2:
            return ['*', e, ['n', 1]]
        if k == 3:
            return ['*', ['n', 1], e]
        if k == 4:
            return ['+', e, ['*', ['n', 0], ['v', draw(st.sampled_from(VARS[:3]))]]]
        return ['^', e, 1] if kind == 'real' else ['*', ['n', 1], e]
    if mv == 'suc':
        return ['+', e[1], ['n', 1]] if draw(st.booleans()) else ['+', ['n', 1], e[1]]
    if mv == 'split':
        k = draw(st.integers(1, e[1] - 1))
        if draw(st.booleans()) and e[1] % k == 0:
            return ['*', ['n', k], ['n', e[1] // k]]
        return ['+', ['n', k], ['n', e[1] - k]]
    if mv == 'unpow':
        k = e[2]
        if k == 0:
            return ['n', 1]
        if k == 1:
            return e[1]
        if draw(st.booleans()):
            return ['*', ['^', e[1], k - 1], e[1]]
        j = draw(st.integers(1, k - 1))
        return ['*', ['^', e[1], j], ['^', e[1], k - j]]
    if mv == 'sub':
        return ['+', e[1], ['*', ['q', -1, 1], e[2]]]
    if mv == 'subneg':
        return ['+', e[1], ['neg', e[2]]]
    if mv == 'negmul':
        return ['*', ['q', -1, 1], e[1]]
    if mv == 'negneg':
        return e[1][1] if e[1][0] == 'neg' else e
    if mv == 'dneg':
        return ['neg', ['neg', e]]
    if mv == 'divmul':
        d = poly_of_e(e[2])
        c = d.get((), Fraction(0))
        if c == 0:
            return e
        inv = 1 / c
        return ['*', e[1], ['q', inv.numerator, inv.denominator]]
    return e


@st.composite
def flat_rendering(draw, p, kind):
    """A flat sum-of-products rendering of polynomial p (dict) in drawn order / association; None if impossible."""
    monos = list(sorted(p.items()))[:14]
    monos = draw(st.permutations(monos))
    if len(p) > 14:
        return None
    terms = []
    for m, c in monos:
        factors = []
        for key, ex in m:
            if key.startswith('["a'):
                v = json.loads(key)
            elif not key.startswith('v:'):
                return None
            else:
                v = ['v', key[2:]]
            if ex >= 2 and kind != 'nat' and draw(st.booleans()):
                factors.append(['^', v, ex])
            else:
                factors.extend([v] * ex)
        factors = list(draw(st.permutations(factors))) if factors else []
        coef = None
        if c != 1 or not factors:
            if c.denominator == 1 and c >= 0:
                coef = ['n', int(c)]
            elif kind == 'nat':
                return None
            else:
                coef = ['q', c.numerator, c.denominator]
        if coef is not None:
            if kind == 'nat' and c > 1 and factors and draw(st.integers(0, 3)) == 0:
                # repeat the monomial instead of a coefficient
                body = _assoc(draw, '*', factors)
                terms.extend([body] * int(c))
                continue
            pos = draw(st.integers(0, len(factors)))
            factors = factors[:pos] + [coef] + factors[pos:]
        terms.append(_assoc(draw, '*', factors))
    if not terms:
        return ['n', 0]
    return _assoc(draw, '+', terms)


@st.composite
def poly_dicts(draw, kind):
    """A polynomial (dict monomial -> Fraction) whose monomials share variables: the inputs on which orderings matter."""
    nv = draw(st.integers(2, 4))
    names = list(draw(st.permutations(VARS)))[:nv]
    k = draw(st.integers(2, 5))
    p = {}
    for _ in range(k):
        deg = draw(st.sampled_from([1, 2, 2, 2, 3, 3]))
        vs = [draw(st.sampled_from(names)) for _ in range(deg)]
        m = {}
        for v in vs:
            m['v:' + v] = m.get('v:' + v, 0) + 1
        m = tuple(sorted(m.items()))
        if kind == 'nat':
            c = Fraction(draw(st.sampled_from([1, 1, 1, 2, 3, 5])))
        else:
            c = Fraction(draw(st.sampled_from([1, 1, 1, 2, 3, -1, -2, -1, 5])), draw(st.sampled_from([1, 1, 1, 2, 3])))
        if m not in p:
            p[m] = c
    if draw(st.integers(0, 3)) == 0:
        p[()] = Fraction(draw(st.sampled_from([1, 2, 7])))
    return p


def _assoc(draw, op, items):
    items = list(items)
    while len(items) > 1:
        i = draw(st.integers(0, len(items) - 2))
        items[i:i + 2] = [[op, items[i], items[i + 1]]]
    return items[0]


# ------------------------------------------------------------------------------------------ strategies: propositional
ATOMS = ['A', 'B', 'C', 'D', 'E']


def formulas(max_leaves=8, consts=True, ops=('not', 'and', 'or', 'imp', 'iff'), atoms=None):
    atoms = atoms or ATOMS
    leaves = [st.sampled_from(atoms).map(lambda a: ['A', a])] * 4
    if consts:
        leaves.append(st.sampled_from([['T'], ['F']]))

    def ext(ch):
        alts = []
        for op in ops:
            if op == 'not':
                alts.append(st.tuples(st.just('not'), ch).map(list))
            else:
                alts.append(st.tuples(st.just(op), ch, ch).map(list))
        return st.one_of(alts)
    return st.recursive(st.one_of(leaves), ext, max_leaves=max_leaves)


@st.composite
def member_sets(draw, op):
    """Distinct members of a conjunction (op='and') / disjunction (op='or') and a feature label."""
    other = 'or' if op == 'and' else 'and'
    lit = st.one_of(st.sampled_from(ATOMS).map(lambda a: ['A', a]),
                    st.sampled_from(ATOMS).map(lambda a: ['A', a]),
                    st.sampled_from(ATOMS).map(lambda a: ['not', ['A', a]]))
    shape = draw(st.sampled_from(['atoms', 'atoms', 'literals', 'literals', 'nested', 'const', 'deep']))
    n = draw(st.integers(1, 6))
    ms = []
    for _ in range(n):
        if shape == 'atoms':
            m = ['A', draw(st.sampled_from(ATOMS + ['F', 'G']))]
        elif shape == 'literals':
            m = draw(lit)
        elif shape == 'nested':
            m = draw(st.one_of(lit, st.tuples(st.just(other), lit, lit).map(list)))
        elif shape == 'const':
            m = draw(st.one_of(lit, lit, st.sampled_from([['T'], ['F']])))
        else:
            m = draw(st.one_of(lit, st.tuples(st.just(other), lit, lit).map(list),
                               st.tuples(st.just('imp'), lit, lit).map(list),
                               st.tuples(st.just('iff'), lit, lit).map(list),
                               st.tuples(st.just('not'), st.tuples(st.just('imp'), lit, lit).map(list)).map(list)))
        if m not in ms and m[0] != op:
            ms.append(m)
    return ms, shape


def members_feature(ms):
    """Feature of a member set for signatures."""
    has_const = any(m in (['T'], ['F']) for m in ms)
    lits = [m for m in ms if m[0] == 'A' or (m[0] == 'not' and m[1][0] == 'A')]
    compl = any(['not', m] in ms for m in ms)
    if has_const:
        return 'with-true-false'
    if compl:
        return 'complementary-literals'
    if len(lits) == len(ms):
        return 'literals'
    return 'compound-members'


@st.composite
def member_rendering(draw, ms, op):
    """A tree of `op` over the members, each at least once, duplicates allowed."""
    items = list(ms)
    extra = draw(st.integers(0, 2)) if len(ms) > 1 else draw(st.integers(1, 2))
    for _ in range(extra):
        items.append(draw(st.sampled_from(ms)))
    items = list(draw(st.permutations(items)))
    return _assoc(draw, op, items)
