"""JSON <-> holpy kernel objects.

Types:  ["tv", name] | ["stv", name] | ["tc", name, arg, ...]
Terms:  ["v", name, T] | ["sv", name, T] | ["c", name, T] | ["app", f, a] | ["abs", name, T, body] | ["b", n]
Thm:    {"hyps": [term...], "prop": term}
"""
from vlib.harness import CaseInvalid

BOOL = ["tc", "bool"]


def fun(*ts):
    res = ts[-1]
    for a in reversed(ts[:-1]):
        res = ["tc", "fun", a, res]
    return res


def type_dec(j):
    from kernel.type import TVar, STVar, TConst
    try:
        tag = j[0]
        if tag == 'tv':
            assert isinstance(j[1], str)
            return TVar(j[1])
        if tag == 'stv':
            assert isinstance(j[1], str)
            return STVar(j[1])
        if tag == 'tc':
            assert isinstance(j[1], str)
            return TConst(j[1], *[type_dec(a) for a in j[2:]])
    except CaseInvalid:
        raise
    except Exception:
        pass
    raise CaseInvalid('type %r' % (j,))


def type_enc(T):
    if T.is_tvar():
        return ["tv", T.name]
    if T.is_stvar():
        return ["stv", T.name]
    return ["tc", T.name] + [type_enc(a) for a in T.args]


def term_dec(j):
    from kernel.term import Var, SVar, Const, Comb, Abs, Bound
    try:
        tag = j[0]
        if tag == 'v':
            assert isinstance(j[1], str)
            return Var(j[1], type_dec(j[2]))
        if tag == 'sv':
            assert isinstance(j[1], str)
            return SVar(j[1], type_dec(j[2]))
        if tag == 'c':
            assert isinstance(j[1], str)
            return Const(j[1], type_dec(j[2]))
        if tag == 'app' and len(j) == 3:
            return Comb(term_dec(j[1]), term_dec(j[2]))
        if tag == 'abs' and len(j) == 4:
            assert isinstance(j[1], str)
            return Abs(j[1], type_dec(j[2]), term_dec(j[3]))
        if tag == 'b':
            assert isinstance(j[1], int) and not isinstance(j[1], bool) and j[1] >= 0
            return Bound(j[1])
    except CaseInvalid:
        raise
    except Exception:
        pass
    raise CaseInvalid('term %r' % (j,))


def term_enc(t):
    if t.is_var():
        return ["v", t.name, type_enc(t.T)]
    if t.is_svar():
        return ["sv", t.name, type_enc(t.T)]
    if t.is_const():
        return ["c", t.name, type_enc(t.T)]
    if t.is_comb():
        return ["app", term_enc(t.fun), term_enc(t.arg)]
    if t.is_abs():
        return ["abs", t.var_name, type_enc(t.var_T), term_enc(t.body)]
    if t.is_bound():
        return ["b", t.n]
    raise TypeError


def thm_enc(th):
    return {"hyps": [term_enc(h) for h in th.hyps], "prop": term_enc(th.prop)}


def thm_dec(j):
    from kernel.thm import Thm
    try:
        return Thm(term_dec(j['prop']), *[term_dec(h) for h in j['hyps']])
    except CaseInvalid:
        raise
    except Exception:
        raise CaseInvalid('thm')


# ---- helpers on JSON types (no holpy involved) -------------------------------------
def jt_is_fun(T):
    return T[0] == 'tc' and T[1] == 'fun' and len(T) == 4


def jt_strip(T):
    args = []
    while jt_is_fun(T):
        args.append(T[2])
        T = T[3]
    return args, T


def jt_subst(T, sigma):
    """sigma: dict (tag, name) -> type, applies to both tv and stv."""
    if T[0] in ('tv', 'stv'):
        return sigma.get((T[0], T[1]), T)
    return [T[0], T[1]] + [jt_subst(a, sigma) for a in T[2:]]


def jt_match(pat, T, sigma):
    """Match pattern `pat` (its tv/stv are pattern variables) against T; extends sigma; returns bool."""
    if pat[0] in ('tv', 'stv'):
        key = (pat[0], pat[1])
        if key in sigma:
            return sigma[key] == T
        sigma[key] = T
        return True
    if T[0] != 'tc' or T[1] != pat[1] or len(T) != len(pat):
        return False
    return all(jt_match(p, a, sigma) for p, a in zip(pat[2:], T[2:]))


def jt_vars(T, acc=None):
    if acc is None:
        acc = []
    if T[0] in ('tv', 'stv'):
        if (T[0], T[1]) not in acc:
            acc.append((T[0], T[1]))
    else:
        for a in T[2:]:
            jt_vars(a, acc)
    return acc


def jt_str(T):
    if T[0] == 'tv':
        return "'" + T[1]
    if T[0] == 'stv':
        return "?'" + T[1]
    if jt_is_fun(T):
        a = jt_str(T[2])
        if jt_is_fun(T[2]):
            a = '(' + a + ')'
        return a + ' => ' + jt_str(T[3])
    if len(T) == 2:
        return T[1]
    return '(' + ', '.join(jt_str(a) for a in T[2:]) + ') ' + T[1]


def jterm_str(t, bd=()):
    tag = t[0]
    if tag == 'v':
        return t[1]
    if tag == 'sv':
        return '?' + t[1]
    if tag == 'c':
        return t[1]
    if tag == 'b':
        return bd[t[1]] if t[1] < len(bd) else ':B%d' % t[1]
    if tag == 'abs':
        return '(%%%s::%s. %s)' % (t[1], jt_str(t[2]), jterm_str(t[3], (t[1],) + tuple(bd)))
    return '(%s %s)' % (jterm_str(t[1], bd), jterm_str(t[2], bd))
