"""C06 support library: an oracle for "goal is a valid consequence of the premises under HOL semantics".

Nothing in this file imports or calls holpy.  Input is the codec JSON encoding of HOL terms (vlib.codec).

Parts
  read_term(j)            codec JSON -> small typed AST (raises Unsupported outside the fragment)
  Evaluator               three-valued (True / False / None) evaluation of the AST under HOL semantics in a concrete
                          model.  Numbers are closed intervals with rational or infinite end points, so a quantifier
                          over nat / int / real is evaluated on a finite partition of the type: finitely many points
                          plus unbounded / connecting intervals which are evaluated abstractly.  Every operator is a
                          sound over-approximation, therefore True / False are certain and everything else is None.
                          HOL semantics: nat quantifiers range over 0.., nat minus truncates, x / 0 = 0,
                          inverse 0 = 0, x ^ 0 = 1, functions are total (tables with a default, or linear functions),
                          sets are predicates.
  Encoder                 independent reference encoding into z3 (own z3 Context): nat variables and nat binders are
                          guarded, nat-valued uninterpreted functions are |F(x)|, truncated minus, x / 0 = 0 by If,
                          equality at function type raises Unsupported.  `flags` switch single deviations on; they are
                          used ONLY to label a violation that was already established by evaluation.
  find_model_z3(...)      negated goal -> z3 model -> evaluator environment (the caller validates it by evaluation)
  enumerate_models(...)   bounded counter-model enumeration (deterministic)
"""
from fractions import Fraction
from math import gcd

F = Fraction


class Unsupported(Exception):
    pass


class Unk(Exception):
    """Evaluation of a non-boolean value is not determined."""


class Budget(Exception):
    pass


# ============================================================================ types
def rd_type(j):
    try:
        if j[0] == 'tv':
            return ('tv', j[1])
        if j[0] == 'tc':
            if len(j) == 2 and j[1] in ('bool', 'nat', 'int', 'real'):
                return j[1]
            if j[1] == 'fun' and len(j) == 4:
                return ('fun', rd_type(j[2]), rd_type(j[3]))
            if j[1] == 'set' and len(j) == 3:
                return ('set', rd_type(j[2]))
    except Unsupported:
        raise
    except Exception:
        pass
    raise Unsupported('type %r' % (j,))


NUM = ('nat', 'int', 'real')


def is_num(T):
    return T in NUM


def is_tv(T):
    return isinstance(T, tuple) and T[0] == 'tv'


def is_set(T):
    return isinstance(T, tuple) and T[0] == 'set'


def is_fun(T):
    return isinstance(T, tuple) and T[0] == 'fun'


def strip_fun(T):
    args = []
    while is_fun(T):
        args.append(T[1])
        T = T[2]
    return args, T


# ============================================================================ reader
def _spine(j):
    args = []
    while isinstance(j, list) and j and j[0] == 'app':
        if len(j) != 3:
            raise Unsupported('app')
        args.append(j[2])
        j = j[1]
    args.reverse()
    return j, args


def _binary(j):
    """Value of a zero/one/bit0/bit1 chain or None."""
    bits = []
    while True:
        if j[0] == 'c' and j[1] == 'one':
            v = 1
            break
        if j[0] == 'c' and j[1] == 'zero':
            v = 0
            break
        if j[0] == 'app' and j[1][0] == 'c' and j[1][1] in ('bit0', 'bit1'):
            bits.append(1 if j[1][1] == 'bit1' else 0)
            j = j[2]
            continue
        return None
    for b in reversed(bits):
        v = 2 * v + b
    return v


_ARITH2 = {'plus': 'plus', 'minus': 'minus', 'times': 'times', 'min': 'min', 'max': 'max', 'real_divide': 'divide'}
_ARITH1 = {'uminus': 'uminus', 'abs': 'abs', 'real_inverse': 'inverse'}
_CMPS = {'less': 'lt', 'less_eq': 'le', 'greater': 'gt', 'greater_eq': 'ge'}
_CONN2 = {'conj': 'and', 'disj': 'or', 'implies': 'imp'}
_SET2 = {'union': 'sun', 'inter': 'sint', 'diff': 'sdiff'}


class Reader:
    def __init__(self):
        self.uid = 0
        self.stack = []     # (uid, T, name) innermost last

    def fresh(self):
        self.uid += 1
        return self.uid

    def read(self, j):
        if not isinstance(j, list) or not j:
            raise Unsupported('term')
        head, args = _spine(j)
        tag = head[0]
        if tag == 'v':
            T = rd_type(head[2])
            return self._apply(('var', T, head[1]), T, args)
        if tag == 'b':
            n = head[1]
            if not isinstance(n, int) or n < 0 or n >= len(self.stack):
                raise Unsupported('loose bound variable')
            uid, T, _ = self.stack[-1 - n]
            return self._apply(('bv', T, uid), T, args)
        if tag == 'c':
            return self._const(head[1], rd_type(head[2]), args)
        raise Unsupported('head ' + str(tag))

    def _apply(self, fnode, T, args):
        if not args:
            return fnode
        argTs, res = strip_fun(T)
        if len(args) != len(argTs) or is_fun(res):
            raise Unsupported('partial application')
        nodes = [self.read(a) for a in args]
        for nd, aT in zip(nodes, argTs):
            if nd[1] != aT:
                raise Unsupported('ill-typed application')
        if fnode[0] != 'var':
            raise Unsupported('bound function variable')
        return ('app', res, fnode[2], T, nodes)

    def _binder(self, arg, want_T=None):
        if not (isinstance(arg, list) and arg and arg[0] == 'abs' and len(arg) == 4):
            raise Unsupported('binder argument is not an abstraction')
        T = rd_type(arg[2])
        uid = self.fresh()
        self.stack.append((uid, T, arg[1]))
        try:
            body = self.read(arg[3])
        finally:
            self.stack.pop()
        if body[1] != 'bool':
            raise Unsupported('binder body')
        return uid, arg[1], T, body

    def _const(self, name, cT, args):
        n = len(args)
        argTs, resT = strip_fun(cT)
        if name == 'true' and n == 0:
            return ('true', 'bool')
        if name == 'false' and n == 0:
            return ('false', 'bool')
        if name == 'neg' and n == 1:
            return ('not', 'bool', self._b(args[0]))
        if name in _CONN2 and n == 2:
            return (_CONN2[name], 'bool', self._b(args[0]), self._b(args[1]))
        if name == 'equals' and n == 2:
            a, b = self.read(args[0]), self.read(args[1])
            T = a[1]
            if b[1] != T:
                raise Unsupported('ill-typed equality')
            if T == 'bool':
                return ('iff', 'bool', a, b)
            if is_num(T) or is_tv(T):
                return ('eq', 'bool', T, a, b)
            if is_set(T):
                return ('seteq', 'bool', a, b)
            if is_fun(T):
                return ('funeq', 'bool', a, b)
            raise Unsupported('equality at ' + str(T))
        if name in ('all', 'exists') and n == 1:
            uid, nm, T, body = self._binder(args[0])
            return ('forall' if name == 'all' else 'exists', 'bool', uid, nm, T, body)
        if name == 'IF' and n == 3:
            c, a, b = self._b(args[0]), self.read(args[1]), self.read(args[2])
            if a[1] != b[1] or is_fun(a[1]) or is_set(a[1]):
                raise Unsupported('IF')
            return ('ite', a[1], c, a, b)
        if name in ('zero', 'one') and n == 0 and is_num(cT):
            return ('num', cT, F(0 if name == 'zero' else 1))
        if name == 'of_nat' and n == 1 and argTs[:1] == ['nat'] and is_num(resT):
            v = _binary(args[0])
            if v is not None:
                return ('num', resT, F(v))
            a = self._n(args[0], 'nat')
            if resT == 'nat':
                return a
            return ('ofnat', resT, a)
        if name in _ARITH2 and n == 2 and is_num(resT):
            if name == 'real_divide' and resT != 'real':
                raise Unsupported('division at ' + str(resT))
            return ('arith', resT, _ARITH2[name], [self._n(args[0], resT), self._n(args[1], resT)])
        if name in _ARITH1 and n == 1 and is_num(resT):
            if (name == 'uminus' and resT == 'nat') or (name == 'real_inverse' and resT != 'real'):
                raise Unsupported(name + ' at ' + str(resT))
            return ('arith', resT, _ARITH1[name], [self._n(args[0], resT)])
        if name == 'power' and n == 2 and is_num(resT):
            if argTs[1] != 'nat':
                raise Unsupported('real power')
            return ('pow', resT, self._n(args[0], resT), self._n(args[1], 'nat'))
        if name in _CMPS and n == 2:
            T = argTs[0]
            if not is_num(T):
                raise Unsupported('comparison at ' + str(T))
            return ('cmp', 'bool', _CMPS[name], T, self._n(args[0], T), self._n(args[1], T))
        if name == 'member' and n == 2:
            e, S = self.read(args[0]), self._s(args[1])
            if S[1] != ('set', e[1]):
                raise Unsupported('ill-typed member')
            return ('mem', 'bool', e, S)
        if name in _SET2 and n == 2 and is_set(resT):
            return (_SET2[name], resT, self._s(args[0]), self._s(args[1]))
        if name == 'insert' and n == 2 and is_set(resT):
            return ('sins', resT, self.read(args[0]), self._s(args[1]))
        if name == 'empty_set' and n == 0 and is_set(cT):
            return ('sempty', cT)
        if name == 'univ' and n == 0 and is_set(cT):
            return ('suniv', cT)
        if name == 'collect' and n == 1 and is_set(resT):
            uid, nm, T, body = self._binder(args[0])
            return ('collect', resT, uid, nm, T, body)
        if name == 'subset' and n == 2:
            return ('subset', 'bool', self._s(args[0]), self._s(args[1]))
        if name in ('real_closed_interval', 'real_open_interval') and n == 2:
            return ('rci' if name == 'real_closed_interval' else 'roi', ('set', 'real'),
                    self._n(args[0], 'real'), self._n(args[1], 'real'))
        raise Unsupported('constant %s/%d' % (name, n))

    def _b(self, j):
        nd = self.read(j)
        if nd[1] != 'bool':
            raise Unsupported('expected bool')
        return nd

    def _n(self, j, T):
        nd = self.read(j)
        if nd[1] != T:
            raise Unsupported('expected %s got %s' % (T, nd[1]))
        return nd

    def _s(self, j):
        nd = self.read(j)
        if not is_set(nd[1]):
            raise Unsupported('expected set')
        return nd


def read_term(j, reader=None):
    return (reader or Reader()).read(j)


# ---------------------------------------------------------------------------- AST utilities
def children(nd):
    tag = nd[0]
    if tag in ('var', 'bv', 'num', 'true', 'false', 'sempty', 'suniv'):
        return []
    if tag == 'arith':
        return list(nd[3])
    if tag == 'app':
        return list(nd[4])
    if tag in ('forall', 'exists', 'collect'):
        return [nd[5]]
    if tag == 'eq':
        return [nd[3], nd[4]]
    if tag == 'cmp':
        return [nd[4], nd[5]]
    return [x for x in nd[2:] if isinstance(x, tuple)]


def walk(nd):
    stack = [nd]
    while stack:
        x = stack.pop()
        yield x
        stack.extend(children(x))


def free_vars(nodes):
    """dict name -> type for free variables (including applied function variables)."""
    out = {}
    for nd in nodes:
        for x in walk(nd):
            if x[0] == 'var':
                out.setdefault(x[2], x[1])
            elif x[0] == 'app':
                out.setdefault(x[2], x[3])
    return out


def constants(nodes):
    out = set()
    for nd in nodes:
        for x in walk(nd):
            if x[0] == 'num':
                out.add(x[2])
    return out


def quant_depth(nd):
    d = 0
    if nd[0] in ('forall', 'exists', 'collect') and (is_num(nd[4])):
        d = 1
    if nd[0] in ('subset', 'seteq') and is_num(nd[2][1][1]):
        d = 1
    return d + max([quant_depth(c) for c in children(nd)] or [0])


def features(prems, concl):
    """Syntactic classes of a goal (polarity-aware), for the class histogram."""
    out = set()

    def rec(nd, pol):           # pol: +1 positive, -1 negative, 0 both
        tag = nd[0]
        if tag in ('forall', 'exists'):
            T = nd[4]
            if T == 'nat':
                univ = (tag == 'forall')
                if pol == 0:
                    out.add('nat-quant-both-polarities')
                elif (univ and pol < 0) or (not univ and pol > 0):
                    out.add('nat-forall-negative' if univ else 'nat-exists-positive')
                else:
                    out.add('nat-quant-harmless')
            else:
                out.add('quant-' + (T if isinstance(T, str) else T[0]))
            rec(nd[5], pol)
            return
        if tag == 'not':
            rec(nd[2], -pol)
            return
        if tag == 'imp':
            rec(nd[2], -pol)
            rec(nd[3], pol)
            return
        if tag in ('and', 'or'):
            rec(nd[2], pol)
            rec(nd[3], pol)
            return
        if tag == 'iff':
            rec(nd[2], 0)
            rec(nd[3], 0)
            return
        if tag == 'ite':
            out.add('ite')
            rec(nd[2], 0)
            rec(nd[3], pol if nd[1] == 'bool' else 0)
            rec(nd[4], pol if nd[1] == 'bool' else 0)
            return
        if tag == 'funeq':
            out.add('fun-eq')
        if tag in ('subset', 'seteq', 'mem', 'collect', 'sun', 'sint', 'sdiff', 'sins'):
            out.add('set')
            if tag in ('subset', 'seteq') and nd[2][1] == ('set', 'nat') and (pol <= 0 or tag == 'seteq'):
                out.add('nat-set-binder-negative')
        if tag in ('rci', 'roi'):
            out.add('interval')
        if tag == 'arith':
            if nd[2] == 'minus' and nd[1] == 'nat':
                out.add('nat-minus')
            if nd[2] in ('divide', 'inverse'):
                out.add('division')
            if nd[2] in ('min', 'max', 'abs'):
                out.add('minmaxabs')
            if nd[2] == 'times' and nd[3][0][0] != 'num' and nd[3][1][0] != 'num':
                out.add('nonlinear')
        if tag == 'pow':
            out.add('power')
        if tag == 'ofnat':
            out.add('of_nat')
            if nd[2][0] == 'bv':
                out.add('of_nat-bound')
        if tag == 'app':
            out.add('uninterpreted')
        for c in children(nd):
            rec(c, 0 if tag in ('collect',) else (pol if nd[1] == 'bool' and tag not in ('eq', 'cmp', 'mem') else 0))
    for p in prems:
        rec(p, -1)
    rec(concl, 1)
    return out


def has_nonnormal_fraction(nodes):
    for nd in nodes:
        for x in walk(nd):
            if x[0] == 'arith' and x[2] == 'divide' and x[3][0][0] == 'num' and x[3][1][0] == 'num':
                p, q = x[3][0][2], x[3][1][2]
                if q == 0:
                    if p != 1:
                        return True
                elif q == 1 or gcd(int(p), int(q)) != 1:
                    return True
    return False


def has_tag(nodes, tag):
    return any(x[0] == tag for nd in nodes for x in walk(nd))


# ============================================================================ extended interval arithmetic
class _Inf:
    def __init__(self, s):
        self.s = s

    def __repr__(self):
        return '+inf' if self.s > 0 else '-inf'


NEG, POS = _Inf(-1), _Inf(1)


def _k(v):
    if v is NEG:
        return (-1, 0)
    if v is POS:
        return (1, 0)
    return (0, v)


def xlt(a, b):
    return _k(a) < _k(b)


def xle(a, b):
    return _k(a) <= _k(b)


def xmin(vals):
    return min(vals, key=_k)


def xmax(vals):
    return max(vals, key=_k)


def xneg(a):
    return POS if a is NEG else NEG if a is POS else -a


def xsgn(a):
    if a is NEG:
        return -1
    if a is POS:
        return 1
    return (a > 0) - (a < 0)


def xmul(a, b):
    if a is NEG or a is POS or b is NEG or b is POS:
        s = xsgn(a) * xsgn(b)
        return F(0) if s == 0 else (POS if s > 0 else NEG)
    return a * b


def pt(v):
    v = F(v)
    return (v, v)


def is_pt(a):
    return a[0] is not NEG and a[1] is not POS and a[0] == a[1]


ZERO = pt(0)
ALL = (NEG, POS)


def i_add(a, b):
    lo = NEG if (a[0] is NEG or b[0] is NEG) else a[0] + b[0]
    hi = POS if (a[1] is POS or b[1] is POS) else a[1] + b[1]
    return (lo, hi)


def i_neg(a):
    return (xneg(a[1]), xneg(a[0]))


def i_sub(a, b):
    return i_add(a, i_neg(b))


def i_mul(a, b):
    if (is_pt(a) and a[0] == 0) or (is_pt(b) and b[0] == 0):
        return ZERO
    ps = [xmul(x, y) for x in a for y in b]
    return (xmin(ps), xmax(ps))


def i_abs(a):
    if xle(0, a[0]):
        return a
    if xle(a[1], 0):
        return i_neg(a)
    return (F(0), xmax([xneg(a[0]), a[1]]))


def i_square(a):
    b = i_abs(a)
    return (xmul(b[0], b[0]), xmul(b[1], b[1]))


def i_contains0(a):
    return xle(a[0], 0) and xle(0, a[1])


def i_inv_nz(b):
    """1/b for an interval that does not contain 0."""
    if xlt(0, b[0]):
        return (F(0) if b[1] is POS else 1 / b[1], 1 / b[0])
    return (1 / b[1], F(0) if b[0] is NEG else 1 / b[0])


def i_div(a, b):
    if is_pt(b) and b[0] == 0:
        return ZERO                      # HOL: x / 0 = 0
    if i_contains0(b):
        return ALL
    return i_mul(a, i_inv_nz(b))


def i_inv(b):
    if is_pt(b) and b[0] == 0:
        return ZERO
    if i_contains0(b):
        return ALL
    return i_inv_nz(b)


def i_min(a, b):
    return (xmin([a[0], b[0]]), xmin([a[1], b[1]]))


def i_max(a, b):
    return (xmax([a[0], b[0]]), xmax([a[1], b[1]]))


def i_hull(vals):
    return (xmin([v[0] for v in vals]), xmax([v[1] for v in vals]))


def i_pow(a, n):
    if n == 0:
        return pt(1)
    if n % 2 == 0:
        a = i_abs(a)

    def p(x):
        if x is NEG or x is POS:
            return x if (n % 2 == 1 or x is POS) else POS
        return x ** n
    return (p(a[0]), p(a[1]))


def cmp3(op, a, b):
    if op == 'gt':
        return cmp3('lt', b, a)
    if op == 'ge':
        return cmp3('le', b, a)
    if op == 'lt':
        if xlt(a[1], b[0]):
            return True
        if xle(b[1], a[0]):
            return False
        return None
    if op == 'le':
        if xle(a[1], b[0]):
            return True
        if xlt(b[1], a[0]):
            return False
        return None
    raise ValueError(op)


def eq3(a, b):
    if is_pt(a) and is_pt(b):
        return a[0] == b[0]
    if xlt(a[1], b[0]) or xlt(b[1], a[0]):
        return False
    return None


def not3(a):
    return None if a is None else (not a)


# ============================================================================ evaluator
def fun_normal(fv):
    """Canonical form of a function value, for extensional equality."""
    if fv[0] == 'lin':
        if fv[1] == 0:
            return ('tbl', (), F(fv[2]))
        return ('lin', F(fv[1]), F(fv[2]))
    tbl, d = fv[1], fv[2]
    items = tuple(sorted((k, v) for k, v in tbl.items() if v != d))
    return ('tbl', items, d)


class Evaluator:
    """env: free variable name -> value.   Values: numbers are intervals (lo, hi); booleans True/False;
    elements of a type variable are ints; functions / sets are ('tbl', {argtuple: value}, default) or
    ('lin', a, b) [x |-> a*x + b].  univ: type variable name -> size of its universe."""

    def __init__(self, env, univ=None, relevant=(), kcap=10, max_steps=150000):
        self.env = env
        self.univ = univ or {}
        self.steps = 0
        self.max_steps = max_steps
        rel = sorted(set(F(r) for r in relevant))
        big = max([abs(r) for r in rel] or [F(0)])
        K = int(big) + 2
        self.K = max(3, min(K, kcap))
        rs = sorted(set([r for r in rel if abs(r) <= 50] + [F(0)]))
        if len(rs) > 7:
            rs = sorted(sorted(rs, key=lambda r: (abs(r), r))[:7])
        self.rs = rs
        self._pieces = {}

    # ---- domains
    def pieces(self, T):
        if T in self._pieces:
            return self._pieces[T]
        K = self.K
        if T == 'bool':
            res = [True, False]
        elif is_tv(T):
            res = list(range(max(1, self.univ.get(T[1], 1))))
        elif T == 'nat':
            res = [pt(i) for i in range(K + 1)] + [(F(K + 1), POS)]
        elif T == 'int':
            res = [pt(i) for i in range(0, K + 1)] + [pt(-i) for i in range(1, K + 1)] + \
                  [(F(K + 1), POS), (NEG, F(-K - 1))]
        elif T == 'real':
            rs = self.rs
            res = [pt(r) for r in rs]
            res += [pt((rs[i] + rs[i + 1]) / 2) for i in range(len(rs) - 1)]
            res += [pt(rs[0] - 1), pt(rs[-1] + 1)]
            res += [(rs[i], rs[i + 1]) for i in range(len(rs) - 1)]
            res += [(NEG, rs[0]), (rs[-1], POS)]
        else:
            raise Unk('quantifier over ' + str(T))
        self._pieces[T] = res
        return res

    # ---- values
    def tick(self):
        self.steps += 1
        if self.steps > self.max_steps:
            raise Budget()

    def lookup(self, nd, benv):
        if nd[0] == 'bv':
            return benv[nd[2]]
        try:
            v = self.env[nd[2]]
        except KeyError:
            raise Unk('no value for ' + nd[2])
        return v

    def apply(self, fv, args, resT):
        """args: list of values."""
        if fv[0] == 'lin':
            return i_add(i_mul(pt(fv[1]), args[0]), pt(fv[2]))
        tbl, default = fv[1], fv[2]
        key = []
        for a in args:
            if isinstance(a, tuple):
                if not is_pt(a):
                    key = None
                    break
                key.append(a[0])
            else:
                key.append(a)
        if key is not None:
            return self.lift(tbl.get(tuple(key), default), resT)
        vals = [default]
        for k, v in tbl.items():
            ok = True
            for ki, a in zip(k, args):
                if isinstance(a, tuple):
                    if not (xle(a[0], ki) and xle(ki, a[1])):
                        ok = False
                        break
                elif a != ki:
                    ok = False
                    break
            if ok:
                vals.append(v)
        if is_num(resT):
            return i_hull([pt(v) for v in vals])
        if all(v == vals[0] for v in vals):
            return vals[0]
        if resT == 'bool':
            return None
        raise Unk('undetermined application')

    @staticmethod
    def lift(v, T):
        if is_num(T):
            return pt(v)
        return v

    def num(self, nd, benv):
        """Interval value of a numeric node."""
        self.tick()
        tag = nd[0]
        if tag == 'num':
            return pt(nd[2])
        if tag in ('var', 'bv'):
            v = self.lookup(nd, benv)
            return v if isinstance(v, tuple) and len(v) == 2 and not isinstance(v[0], str) else pt(v)
        if tag == 'arith':
            op, T, args = nd[2], nd[1], nd[3]
            if op == 'times':
                if args[0] == args[1]:
                    return i_square(self.num(args[0], benv))
                return i_mul(self.num(args[0], benv), self.num(args[1], benv))
            if op == 'plus':
                return i_add(self.num(args[0], benv), self.num(args[1], benv))
            if op == 'minus':
                if args[0] == args[1]:
                    self.num(args[0], benv)
                    return ZERO
                d = i_sub(self.num(args[0], benv), self.num(args[1], benv))
                if T == 'nat':
                    return (xmax([d[0], F(0)]), xmax([d[1], F(0)]))
                return d
            if op == 'uminus':
                return i_neg(self.num(args[0], benv))
            if op == 'divide':
                return i_div(self.num(args[0], benv), self.num(args[1], benv))
            if op == 'inverse':
                return i_inv(self.num(args[0], benv))
            if op == 'abs':
                return i_abs(self.num(args[0], benv))
            if op == 'min':
                return i_min(self.num(args[0], benv), self.num(args[1], benv))
            if op == 'max':
                return i_max(self.num(args[0], benv), self.num(args[1], benv))
            raise Unk(op)
        if tag == 'pow':
            e = self.num(nd[3], benv)
            b = self.num(nd[2], benv)
            if not is_pt(e) or e[0] < 0 or e[0].denominator != 1 or e[0] > 64:
                if is_pt(b) and b[0] in (0, 1) and xle(1, e[0]):
                    return b
                return ALL if nd[1] != 'nat' else (F(0), POS)
            return i_pow(b, int(e[0]))
        if tag == 'ofnat':
            return self.num(nd[2], benv)
        if tag == 'ite':
            c = self.boolean(nd[2], benv)
            if c is True:
                return self.num(nd[3], benv)
            if c is False:
                return self.num(nd[4], benv)
            return i_hull([self.num(nd[3], benv), self.num(nd[4], benv)])
        if tag == 'app':
            fv = self.env.get(nd[2])
            if fv is None:
                raise Unk('no value for ' + nd[2])
            return self.apply(fv, [self.value(a, benv) for a in nd[4]], nd[1])
        raise Unk('numeric ' + tag)

    def elem(self, nd, benv):
        """Value of a node whose type is a type variable (always concrete)."""
        self.tick()
        tag = nd[0]
        if tag in ('var', 'bv'):
            return self.lookup(nd, benv)
        if tag == 'ite':
            c = self.boolean(nd[2], benv)
            if c is None:
                a, b = self.elem(nd[3], benv), self.elem(nd[4], benv)
                if a == b:
                    return a
                raise Unk('ite')
            return self.elem(nd[3] if c else nd[4], benv)
        if tag == 'app':
            fv = self.env.get(nd[2])
            if fv is None:
                raise Unk('no value for ' + nd[2])
            return self.apply(fv, [self.value(a, benv) for a in nd[4]], nd[1])
        raise Unk('element ' + tag)

    def value(self, nd, benv):
        T = nd[1]
        if T == 'bool':
            return self.boolean(nd, benv)
        if is_num(T):
            return self.num(nd, benv)
        if is_tv(T):
            return self.elem(nd, benv)
        raise Unk('value at ' + str(T))

    def member(self, S, e, benv):
        """Three-valued e IN S, e a value."""
        self.tick()
        tag = S[0]
        if tag in ('var', 'bv'):
            fv = self.lookup(S, benv)
            return self.apply(fv, [e], 'bool')
        if tag == 'sempty':
            return False
        if tag == 'suniv':
            return True
        if tag == 'sins':
            x = self.value(S[2], benv)
            a = eq3(e, x) if isinstance(e, tuple) else (e == x)
            if a is True:
                return True
            b = self.member(S[3], e, benv)
            return self.or3(a, b)
        if tag == 'sun':
            a = self.member(S[2], e, benv)
            if a is True:
                return True
            return self.or3(a, self.member(S[3], e, benv))
        if tag == 'sint':
            a = self.member(S[2], e, benv)
            if a is False:
                return False
            return self.and3(a, self.member(S[3], e, benv))
        if tag == 'sdiff':
            a = self.member(S[2], e, benv)
            if a is False:
                return False
            return self.and3(a, not3(self.member(S[3], e, benv)))
        if tag == 'collect':
            b2 = dict(benv)
            b2[S[2]] = e
            return self.boolean(S[5], b2)
        if tag in ('rci', 'roi'):
            op = 'le' if tag == 'rci' else 'lt'
            a = cmp3(op, self.num(S[2], benv), e)
            if a is False:
                return False
            return self.and3(a, cmp3(op, e, self.num(S[3], benv)))
        raise Unk('set ' + tag)

    @staticmethod
    def and3(a, b):
        if a is False or b is False:
            return False
        if a is True and b is True:
            return True
        return None

    @staticmethod
    def or3(a, b):
        if a is True or b is True:
            return True
        if a is False and b is False:
            return False
        return None

    def boolean(self, nd, benv):
        try:
            return self._boolean(nd, benv)
        except Unk:
            return None

    def _quant(self, univ, T, body_fn):
        """body_fn(value) -> bool3.  univ=True: forall."""
        res = univ
        for p in self.pieces(T):
            v = body_fn(p)
            if v is None:
                res = None
            elif v is not univ:
                return v
        return res

    def _boolean(self, nd, benv):
        self.tick()
        tag = nd[0]
        if tag == 'true':
            return True
        if tag == 'false':
            return False
        if tag in ('var', 'bv'):
            return self.lookup(nd, benv)
        if tag == 'not':
            return not3(self.boolean(nd[2], benv))
        if tag == 'and':
            a = self.boolean(nd[2], benv)
            if a is False:
                return False
            return self.and3(a, self.boolean(nd[3], benv))
        if tag == 'or':
            a = self.boolean(nd[2], benv)
            if a is True:
                return True
            return self.or3(a, self.boolean(nd[3], benv))
        if tag == 'imp':
            a = self.boolean(nd[2], benv)
            if a is False:
                return True
            return self.or3(not3(a), self.boolean(nd[3], benv))
        if tag == 'iff':
            a, b = self.boolean(nd[2], benv), self.boolean(nd[3], benv)
            if a is None or b is None:
                return None
            return a == b
        if tag == 'eq':
            T = nd[2]
            if is_num(T):
                if nd[3] == nd[4]:
                    self.num(nd[3], benv)
                    return True
                return eq3(self.num(nd[3], benv), self.num(nd[4], benv))
            return self.elem(nd[3], benv) == self.elem(nd[4], benv)
        if tag == 'cmp':
            return cmp3(nd[2], self.num(nd[4], benv), self.num(nd[5], benv))
        if tag == 'ite':
            c = self.boolean(nd[2], benv)
            if c is True:
                return self.boolean(nd[3], benv)
            if c is False:
                return self.boolean(nd[4], benv)
            a, b = self.boolean(nd[3], benv), self.boolean(nd[4], benv)
            return a if (a == b and a is not None) else None
        if tag in ('forall', 'exists'):
            uid, T, body = nd[2], nd[4], nd[5]

            def fn(v):
                b2 = dict(benv)
                b2[uid] = v
                return self.boolean(body, b2)
            return self._quant(tag == 'forall', T, fn)
        if tag == 'mem':
            return self.member(nd[3], self.value(nd[2], benv), benv)
        if tag in ('subset', 'seteq'):
            A, B = nd[2], nd[3]
            T = A[1][1]

            def fn(v):
                a = self.member(A, v, benv)
                if tag == 'subset':
                    if a is False:
                        return True
                    return self.or3(not3(a), self.member(B, v, benv))
                b = self.member(B, v, benv)
                if a is None or b is None:
                    return None
                return a == b
            return self._quant(True, T, fn)
        if tag == 'funeq':
            f, g = nd[2], nd[3]
            if f[0] not in ('var',) or g[0] not in ('var',):
                raise Unk('funeq on non-variables')
            return fun_normal(self.lookup(f, benv)) == fun_normal(self.lookup(g, benv))
        if tag == 'app':
            fv = self.env.get(nd[2])
            if fv is None:
                raise Unk('no value for ' + nd[2])
            return self.apply(fv, [self.value(a, benv) for a in nd[4]], 'bool')
        raise Unk('boolean ' + tag)

    def goal(self, prems, concl):
        """True: the model satisfies prems --> concl; False: certain counter-model; None: undetermined."""
        try:
            c = self.boolean(concl, {})
            if c is True:
                return True
            res = False if c is False else None
            for p in prems:
                v = self.boolean(p, {})
                if v is False:
                    return True
                if v is None:
                    res = None
            return res
        except Budget:
            return None


def relevant_numbers(nodes, env):
    rel = set(constants(nodes))
    for v in env.values():
        if isinstance(v, bool):
            continue
        if isinstance(v, (int, Fraction)):
            rel.add(F(v))
        elif isinstance(v, tuple) and v and v[0] == 'tbl':
            for k, x in v[1].items():
                for ki in k:
                    if isinstance(ki, (int, Fraction)) and not isinstance(ki, bool):
                        rel.add(F(ki))
                if isinstance(x, (int, Fraction)) and not isinstance(x, bool):
                    rel.add(F(x))
            if isinstance(v[2], (int, Fraction)) and not isinstance(v[2], bool):
                rel.add(F(v[2]))
        elif isinstance(v, tuple) and v and v[0] == 'lin':
            rel.add(F(v[2]))
    return rel


def evaluate_goal(prems, concl, env, univ, tvars=()):
    """Evaluate prems --> concl in the model; numbers in env are plain Fractions/ints (made into points here)."""
    nodes = list(prems) + [concl]
    fv = free_vars(nodes)
    e2 = {}
    for nm, v in env.items():
        T = fv.get(nm)
        if T is not None and is_num(T):
            e2[nm] = pt(v)
        else:
            e2[nm] = v
    d = max(quant_depth(n) for n in nodes)
    kcap = {0: 10, 1: 12, 2: 7, 3: 4}.get(d, 3)
    ev = Evaluator(e2, univ, relevant_numbers(nodes, env), kcap=kcap)
    return ev.goal(prems, concl)


# ============================================================================ reference encoder (z3)
_z3 = None
_ctx = None


def z3mod():
    global _z3, _ctx
    if _z3 is None:
        import z3
        _z3 = z3
        _ctx = z3.Context(proof=False)
    return _z3, _ctx


FLAGS = ('nat-binder', 'of_nat-bound', 'nat-var', 'nat-minus', 'div-zero')


class Encoder:
    def __init__(self, flags=()):
        self.z3, self.ctx = z3mod()
        self.flags = set(flags)
        self.side = []          # global side constraints
        self.vars = {}          # (name) -> (T, z3 object)
        self.sorts = {}
        self.qn = 0

    # ---- sorts / symbols
    def sort(self, T):
        z3, ctx = self.z3, self.ctx
        if T in ('nat', 'int'):
            return z3.IntSort(ctx)
        if T == 'real':
            return z3.RealSort(ctx)
        if T == 'bool':
            return z3.BoolSort(ctx)
        if is_tv(T):
            if T[1] not in self.sorts:
                self.sorts[T[1]] = z3.DeclareSort('tv_' + T[1], ctx)
            return self.sorts[T[1]]
        raise Unsupported('sort of ' + str(T))

    def symbol(self, name, T):
        z3 = self.z3
        if name in self.vars:
            if self.vars[name][0] != T:
                raise Unsupported('variable used at two types')
            return self.vars[name][1]
        if is_fun(T):
            argTs, res = strip_fun(T)
            obj = z3.Function('v_' + name, *([self.sort(a) for a in argTs] + [self.sort(res)]))
        elif is_set(T):
            obj = z3.Function('v_' + name, self.sort(T[1]), z3.BoolSort(self.ctx))
        else:
            obj = z3.Const('v_' + name, self.sort(T))
            if T == 'nat' and 'nat-var' not in self.flags:
                self.side.append(obj >= 0)
        self.vars[name] = (T, obj)
        return obj

    def numval(self, v, T):
        z3 = self.z3
        v = F(v)
        if T == 'real':
            return z3.RealVal(str(v), self.ctx)
        if v.denominator != 1:
            raise Unsupported('fraction at ' + T)
        return z3.IntVal(int(v), self.ctx)

    def guard(self, T, c):
        if T == 'nat' and 'nat-binder' not in self.flags:
            return c >= 0
        return None

    # ---- terms
    def enc(self, nd, benv):
        z3 = self.z3
        tag, T = nd[0], nd[1]
        if tag == 'num':
            return self.numval(nd[2], T)
        if tag == 'var':
            if is_fun(T) or is_set(T):
                raise Unsupported('function / set variable as a value')
            return self.symbol(nd[2], T)
        if tag == 'bv':
            return benv[nd[2]]
        if tag == 'true':
            return z3.BoolVal(True, self.ctx)
        if tag == 'false':
            return z3.BoolVal(False, self.ctx)
        if tag == 'not':
            return z3.Not(self.enc(nd[2], benv))
        if tag == 'and':
            return z3.And(self.enc(nd[2], benv), self.enc(nd[3], benv))
        if tag == 'or':
            return z3.Or(self.enc(nd[2], benv), self.enc(nd[3], benv))
        if tag == 'imp':
            return z3.Implies(self.enc(nd[2], benv), self.enc(nd[3], benv))
        if tag == 'iff':
            return self.enc(nd[2], benv) == self.enc(nd[3], benv)
        if tag == 'eq':
            return self.enc(nd[3], benv) == self.enc(nd[4], benv)
        if tag == 'cmp':
            a, b = self.enc(nd[4], benv), self.enc(nd[5], benv)
            return {'lt': a < b, 'le': a <= b, 'gt': a > b, 'ge': a >= b}[nd[2]]
        if tag == 'ite':
            return z3.If(self.enc(nd[2], benv), self.enc(nd[3], benv), self.enc(nd[4], benv))
        if tag == 'arith':
            op, args = nd[2], nd[3]
            a = self.enc(args[0], benv)
            if op == 'uminus':
                return -a
            if op == 'abs':
                return z3.If(a >= 0, a, -a)
            if op == 'inverse':
                return self.division(self.numval(1, 'real'), a, args[0])
            b = self.enc(args[1], benv)
            if op == 'plus':
                return a + b
            if op == 'times':
                return a * b
            if op == 'minus':
                if T == 'nat' and 'nat-minus' not in self.flags:
                    return z3.If(a >= b, a - b, self.numval(0, 'nat'))
                return a - b
            if op == 'divide':
                return self.division(a, b, args[1])
            if op == 'min':
                return z3.If(a <= b, a, b)
            if op == 'max':
                return z3.If(a >= b, a, b)
            raise Unsupported(op)
        if tag == 'pow':
            if nd[3][0] != 'num' or nd[3][2] > 6:
                raise Unsupported('power with a non-literal / large exponent')
            a = self.enc(nd[2], benv)
            res = self.numval(1, T)
            for _ in range(int(nd[3][2])):
                res = res * a
            return res
        if tag == 'ofnat':
            if nd[2][0] == 'bv' and 'of_nat-bound' in self.flags and T == 'real':
                key = ('r!', nd[2][2])
                if key not in self.vars:
                    c = z3.Const('r!%d' % nd[2][2], z3.RealSort(self.ctx))
                    self.vars[key] = ('real', c)
                    self.side.append(c >= 0)
                return self.vars[key][1]
            a = self.enc(nd[2], benv)
            return z3.ToReal(a) if T == 'real' else a
        if tag == 'app':
            Fd = self.symbol(nd[2], nd[3])
            r = Fd(*[self.enc(a, benv) for a in nd[4]])
            if T == 'nat':
                return z3.If(r >= 0, r, -r)
            return r
        if tag in ('forall', 'exists'):
            uid, qT, body = nd[2], nd[4], nd[5]
            if is_fun(qT) or is_set(qT):
                raise Unsupported('binder at ' + str(qT))
            c = z3.Const('q!%d' % uid, self.sort(qT))
            b2 = dict(benv)
            b2[uid] = c
            bd = self.enc(body, b2)
            g = self.guard(qT, c)
            if tag == 'forall':
                return z3.ForAll([c], bd if g is None else z3.Implies(g, bd))
            return z3.Exists([c], bd if g is None else z3.And(g, bd))
        if tag == 'mem':
            return self.mem(nd[3], self.enc(nd[2], benv), benv)
        if tag in ('subset', 'seteq'):
            eT = nd[2][1][1]
            self.qn += 1
            c = z3.Const('e!%d' % self.qn, self.sort(eT))
            a, b = self.mem(nd[2], c, benv), self.mem(nd[3], c, benv)
            bd = z3.Implies(a, b) if tag == 'subset' else (a == b)
            g = self.guard(eT, c)
            return z3.ForAll([c], bd if g is None else z3.Implies(g, bd))
        if tag == 'funeq':
            raise Unsupported('equality at function type')
        raise Unsupported('encode ' + tag)

    def division(self, a, b, bnode):
        z3 = self.z3
        if 'div-zero' in self.flags:
            if not any(x[0] == 'bv' for x in walk(bnode)):
                self.side.append(b != 0)
            return a / b
        return z3.If(b == 0, self.numval(0, 'real'), a / b)

    def mem(self, S, e, benv):
        z3 = self.z3
        tag = S[0]
        if tag == 'var':
            return self.symbol(S[2], S[1])(e)
        if tag == 'bv':
            raise Unsupported('bound set variable')
        if tag == 'sempty':
            return z3.BoolVal(False, self.ctx)
        if tag == 'suniv':
            return z3.BoolVal(True, self.ctx)
        if tag == 'sins':
            return z3.Or(e == self.enc(S[2], benv), self.mem(S[3], e, benv))
        if tag == 'sun':
            return z3.Or(self.mem(S[2], e, benv), self.mem(S[3], e, benv))
        if tag == 'sint':
            return z3.And(self.mem(S[2], e, benv), self.mem(S[3], e, benv))
        if tag == 'sdiff':
            return z3.And(self.mem(S[2], e, benv), z3.Not(self.mem(S[3], e, benv)))
        if tag == 'collect':
            b2 = dict(benv)
            b2[S[2]] = e
            return self.enc(S[5], b2)
        if tag == 'rci':
            return z3.And(self.enc(S[2], benv) <= e, e <= self.enc(S[3], benv))
        if tag == 'roi':
            return z3.And(self.enc(S[2], benv) < e, e < self.enc(S[3], benv))
        raise Unsupported('set ' + tag)


def _solver(rlimit, timeout_ms):
    z3, ctx = z3mod()
    s = z3.Solver(ctx=ctx)
    if timeout_ms:
        s.set('timeout', timeout_ms)
    s.set('rlimit', rlimit)
    s.set('random_seed', 0)
    return s


def check_negated(prems, concl, flags=(), rlimit=4000000, timeout_ms=0):
    """Returns (status, solver, encoder); status in 'sat' 'unsat' 'unknown'.  Raises Unsupported."""
    enc = Encoder(flags)
    s = _solver(rlimit, timeout_ms)
    ps = [enc.enc(p, {}) for p in prems]
    c = enc.enc(concl, {})
    for p in ps:
        s.add(p)
    s.add(enc.z3.Not(c))
    for g in enc.side:
        s.add(g)
    r = str(s.check())
    return r, s, enc


def _val(z3, v, T, universe):
    if T in ('nat', 'int'):
        if z3.is_int_value(v):
            return F(v.as_long())
        raise Unsupported('model value ' + str(v))
    if T == 'real':
        if z3.is_rational_value(v):
            return F(v.numerator_as_long(), v.denominator_as_long())
        if z3.is_algebraic_value(v):
            a = v.approx(12)
            return F(a.numerator_as_long(), a.denominator_as_long())
        raise Unsupported('model value ' + str(v))
    if T == 'bool':
        if z3.is_true(v):
            return True
        if z3.is_false(v):
            return False
        raise Unsupported('model value ' + str(v))
    if is_tv(T):
        for i, u in enumerate(universe.get(T[1], [])):
            if u.eq(v):
                return i
        raise Unsupported('element not in universe')
    raise Unsupported('model value at ' + str(T))


def read_model(s, enc):
    """z3 model -> (env, univ) for the evaluator.  Raises Unsupported when the model cannot be read."""
    z3 = enc.z3
    m = s.model()
    universe = {}
    for nm, srt in enc.sorts.items():
        u = m.get_universe(srt)
        universe[nm] = list(u) if u is not None else []
    env = {}
    # make sure every element variable lands in the universe
    for name, (T, obj) in enc.vars.items():
        if not isinstance(name, str):
            continue
        if is_fun(T) or is_set(T):
            argTs, res = strip_fun(T) if is_fun(T) else ([T[1]], 'bool')
            fi = m[obj]
            if fi is None:
                default = False if res == 'bool' else (0 if is_tv(res) else F(0))
                env[name] = ('tbl', {}, default)
                continue
            tbl = {}
            try:
                entries = fi.as_list()
            except Exception:
                raise Unsupported('function interpretation')
            if not entries:
                raise Unsupported('function interpretation')
            for ent in entries[:-1]:
                key = tuple(_val(z3, a, aT, universe) for a, aT in zip(ent[:-1], argTs))
                if any(aT == 'nat' and k < 0 for k, aT in zip(key, argTs)):
                    continue
                v = _val(z3, ent[-1], res, universe)
                tbl[key] = abs(v) if res == 'nat' else v
            ev = entries[-1]
            if not z3.is_expr(ev):
                raise Unsupported('else value')
            d = _val(z3, ev, res, universe)
            env[name] = ('tbl', tbl, abs(d) if res == 'nat' else d)
        else:
            v = m.eval(obj, model_completion=True)
            if is_tv(T) and not universe.get(T[1]):
                universe[T[1]] = [v]
            env[name] = _val(z3, v, T, universe)
    univ = {nm: max(1, len(u)) for nm, u in universe.items()}
    return env, univ


def valid_under(prems, concl, flags, rlimit=3000000):
    """Labelling helper: is the goal provable under the deviating semantics `flags`?"""
    try:
        r, _, _ = check_negated(prems, concl, flags, rlimit=rlimit)
    except Unsupported:
        return False
    except Exception:
        return False
    return r == 'unsat'


def explain(prems, concl):
    """Feature for the signature of an established violation (one per root cause)."""
    nodes = list(prems) + [concl]
    if has_tag(nodes, 'funeq'):
        return 'fun-eq'
    for fl in FLAGS:
        if valid_under(prems, concl, (fl,)):
            return fl
    if has_nonnormal_fraction(nodes):
        return 'float-fraction'
    if valid_under(prems, concl, FLAGS):
        return 'several-deviations'
    return 'unexplained'


# ============================================================================ bounded enumeration
NAT_VALUES = [F(i) for i in range(5)]
INT_VALUES = [F(i) for i in (0, 1, -1, 2, -2, 3, -3)]
REAL_VALUES = [F(0), F(1), F(-1), F(1, 2), F(-1, 2), F(2), F(-2)]


def candidates(T, usize=2):
    if T == 'bool':
        return [False, True]
    if T == 'nat':
        return NAT_VALUES
    if T == 'int':
        return INT_VALUES
    if T == 'real':
        return REAL_VALUES
    if is_tv(T):
        return list(range(usize))
    if is_set(T):
        T = ('fun', T[1], 'bool')
    if is_fun(T):
        argTs, res = strip_fun(T)
        if len(argTs) != 1:
            raise Unsupported('function of several arguments')
        a = argTs[0]
        if res == 'bool':
            if is_tv(a):
                out = []
                for bits in range(2 ** usize):
                    out.append(('tbl', {(i,): bool(bits >> i & 1) for i in range(usize)}, False))
                return out
            if is_num(a):
                return [('tbl', {}, False), ('tbl', {}, True), ('tbl', {(F(0),): True}, False),
                        ('tbl', {(F(0),): False}, True), ('tbl', {(F(1),): True, (F(2),): True}, False)]
            raise Unsupported('predicate on ' + str(a))
        if is_num(res) and is_num(a):
            out = [('tbl', {}, F(0)), ('lin', F(1), F(0)), ('tbl', {}, F(1)), ('lin', F(1), F(1)),
                   ('tbl', {(F(0),): F(1)}, F(0)), ('tbl', {(F(0),): F(0), (F(1),): F(0)}, F(2))]
            if res != 'nat':
                out += [('lin', F(-1), F(0)), ('tbl', {}, F(-1))]
            if a != 'nat' and res == 'nat':
                out = [o for o in out if o[0] != 'lin'] + [('tbl', {(F(-1),): F(3)}, F(0))]
            if res == 'real':
                out.append(('tbl', {(F(0),): F(1, 2)}, F(0)))
            return out
        raise Unsupported('function type ' + str(T))
    raise Unsupported('candidates at ' + str(T))


def type_vars(T, acc):
    if is_tv(T):
        acc.add(T[1])
    elif isinstance(T, tuple):
        for x in T[1:]:
            type_vars(x, acc)


def enumerate_models(prems, concl, budget, seed):
    """Yield (env, univ) assignments: exhaustive when the product is within budget, else a deterministic sample."""
    import itertools
    nodes = list(prems) + [concl]
    fv = free_vars(nodes)
    names = sorted(fv)
    tvs = set()
    for nd in nodes:
        for x in walk(nd):
            type_vars(x[1], tvs)
            if x[0] in ('forall', 'exists', 'collect'):
                type_vars(x[4], tvs)
    for nm in names:
        type_vars(fv[nm], tvs)
    univ = {t: 2 for t in tvs}
    cands = [candidates(fv[nm], 2) for nm in names]
    total = 1
    for c in cands:
        total *= len(c)
    if total <= budget:
        for combo in itertools.product(*cands):
            yield dict(zip(names, combo)), univ
    else:
        s = (seed * 6364136223846793005 + 1442695040888963407) & (2 ** 64 - 1)
        seen = set()
        for _ in range(budget):
            pick = []
            for c in cands:
                s = (s * 6364136223846793005 + 1442695040888963407) & (2 ** 64 - 1)
                pick.append((s >> 33) % len(c))
            key = tuple(pick)
            if key in seen:
                continue
            seen.add(key)
            yield {nm: c[i] for nm, c, i in zip(names, cands, pick)}, univ


def show_env(env):
    def sv(v):
        if isinstance(v, tuple) and v and v[0] == 'tbl':
            return '{%s; else %s}' % (', '.join('%s->%s' % (','.join(str(x) for x in k), x2)
                                                for k, x2 in sorted(v[1].items(), key=str)), v[2])
        if isinstance(v, tuple) and v and v[0] == 'lin':
            return '(%%n. %s*n + %s)' % (v[1], v[2])
        return str(v)
    return ', '.join('%s=%s' % (k, sv(env[k])) for k in sorted(env))
