"""Independent evaluator for ground numeric HOL terms (shared oracle: C05, C06, C10, C20).

HOL semantics as pinned down by the holpy library (library/nat.json, int.json, real.json,
transcendentals.json), three-valued:

* naturals: truncated `minus`, `Suc`, `Pre 0 = 0`, `bit0/bit1`, `of_nat` (identity on the value);
* integers / reals: exact `Fraction` arithmetic; `x / 0 = 0`, `real_inverse 0 = 0`;
* `power` with a natural exponent is exact (`x ^ 0 = 1`, also for x = 0);
* real power `x ^ y` follows the library definition (HOL Light's rpow): exp (y * log x) for 0 < x;
  `0 ^ 0 = 1`, `0 ^ y = 0`; for x < 0 and a *rational* y = p/q in lowest terms the sign is negative iff
  p and q are both odd; x < 0 with an exponent that is only known as an interval is UNKNOWN;
* `sqrt x = sgn x * sqrt |x|` (library: SOME y. real_sgn y = real_sgn x & y^2 = |x|);
* `log x` for x <= 0 (THE of an empty set), `uminus` on naturals, `real_divide` at a type other than
  real (constant not declared there) are not pinned down: UNKNOWN;
* pi, exp, log, sin, cos, tan, cot, sec, csc, atn, sqrt, real powers: `mpmath.iv` interval arithmetic
  at DPS (>= 60) digits; sums of rational multiples of square roots of integers are additionally
  kept exact (so `sqrt 2 * sqrt 2 = 2` is decided);
* a comparison between inexact values is decided only when the enclosing intervals separate.

The evaluator reads holpy `Term` objects through public structural fields only (`is_comb`,
`head`, `args`, `name`, `T`, `get_type()`); it never calls an evaluation / normalisation function
of /repo (no nat_eval, int_eval, real_eval, real_approx_eval, dest_number, is_number, ...).

API
    eval_num(t, env=None)   -> Fraction | mpmath.iv.mpf | None        (None = UNKNOWN)
    eval_prop(t, env=None)  -> True | False | None
    compare(a, b)           -> -1 | 0 | 1 | None      on values returned by eval_num
    type_name(T) / term_type(t) -> 'nat' | 'int' | 'real' | 'bool' | None
    free_vars(t)            -> sorted list of (name, type name)
    sample_points(vars, n, seed=0, extra=()) -> list of env dicts (deterministic)
    refute_at_points(t, points) -> (env, stats): first env at which prop t is certainly FALSE (env None: not refuted)
    check_identity(lhs, rhs, points) -> {'refuted': env | None, 'agree': k, 'unknown': k}
    is_exact(v), to_interval(v), endpoints(v), midpoint(v) helpers
`env` maps variable names to Fractions (naturals / integers must get integral values).
"""
from fractions import Fraction
from math import gcd, isqrt

import mpmath
from mpmath import iv

DPS = 70
MAX_BITS = 400000          # refuse exact powers whose result would be larger than this
MAX_SURD_TERMS = 12
_FACTOR_LIMIT = 10 ** 12   # squarefree decomposition only for integers below this bound


class _Unk(Exception):
    """Internal: the value is not determined (or not computable here)."""


def _unk(why=''):
    raise _Unk(why)


# ----------------------------------------------------------------------------- types
def type_name(T):
    try:
        if T.is_tconst() and len(T.args) == 0 and T.name in ('nat', 'int', 'real', 'bool'):
            return T.name
    except Exception:
        pass
    return None


def term_type(t):
    try:
        return type_name(t.get_type())
    except Exception:
        return None


def _fun_sig(head, nargs):
    """Argument type names and result type name of a constant applied to nargs arguments."""
    T = head.T
    argTs = []
    for _ in range(nargs):
        if not T.is_fun():
            _unk('arity')
        argTs.append(type_name(T.args[0]))
        T = T.args[1]
    return argTs, type_name(T)


# ----------------------------------------------------------------------------- exact surds
class Surd:
    """Exact real number  sum_d c_d * sqrt(d),  d squarefree positive integers (d = 1: rational part)."""
    __slots__ = ('t',)

    def __init__(self, t):
        self.t = {d: c for d, c in t.items() if c != 0}

    def __repr__(self):
        return 'Surd(%s)' % ' + '.join('%s*sqrt(%d)' % (c, d) for d, c in sorted(self.t.items()))


def _norm(s):
    """Surd -> Fraction when it is rational."""
    if isinstance(s, Surd):
        if not s.t:
            return Fraction(0)
        if len(s.t) == 1 and 1 in s.t:
            return s.t[1]
        if len(s.t) > MAX_SURD_TERMS:
            return _surd_iv(s)
    return s


def _as_surd(v):
    return v if isinstance(v, Surd) else Surd({1: v})


def _squarefree_split(n):
    """n = s*s*d with d squarefree (n > 0), or None when n is too large to factor here."""
    r = isqrt(n)
    if r * r == n:
        return r, 1
    if n > _FACTOR_LIMIT:
        return None
    s, d, p, m = 1, 1, 2, n
    while p * p <= m:
        if m % p == 0:
            k = 0
            while m % p == 0:
                m //= p
                k += 1
            s *= p ** (k // 2)
            if k % 2:
                d *= p
        p += 1 if p == 2 else 2
        if p > 1000003:
            return None
    d *= m
    return s, d


def _surd_iv(s, dps=None):
    old = iv.dps
    if dps:
        iv.dps = dps
    try:
        acc = iv.mpf(0)
        for d, c in s.t.items():
            term = iv.mpf(c.numerator) / iv.mpf(c.denominator)
            if d != 1:
                term = term * iv.sqrt(iv.mpf(d))
            acc = acc + term
        return acc
    finally:
        iv.dps = old


def _surd_sign(s):
    """Sign of a non-rational surd (non-zero by linear independence of square roots)."""
    if not s.t:
        return 0
    for dps in (DPS, 4 * DPS, 20 * DPS):
        x = _surd_iv(s, dps)
        if _pt_gt0(x.a):
            return 1
        if _pt_lt0(x.b):
            return -1
    return None


# ----------------------------------------------------------------------------- intervals
def _pt_gt0(p):
    return (p > 0) is True


def _pt_lt0(p):
    return (p < 0) is True


def is_exact(v):
    return isinstance(v, (Fraction, Surd))


def to_interval(v):
    """Enclosing mpmath interval of a value."""
    if isinstance(v, Fraction):
        return iv.mpf(v.numerator) / iv.mpf(v.denominator)
    if isinstance(v, Surd):
        return _surd_iv(v)
    return v


def endpoints(v):
    """Exact (lower, upper) Fractions of the enclosure of a value."""
    if isinstance(v, Fraction):
        return v, v
    x = to_interval(v)
    (pa, qa), (pb, qb) = mpmath.libmp.to_rational(x._mpi_[0]), mpmath.libmp.to_rational(x._mpi_[1])
    return Fraction(pa, qa), Fraction(pb, qb)


def midpoint(v):
    """A Fraction inside the enclosure of the value (exact for Fractions)."""
    lo, hi = endpoints(v)
    return (lo + hi) / 2


def _finite(x):
    if not isinstance(x, (Fraction, Surd)):
        try:
            if mpmath.isinf(x.a) or mpmath.isinf(x.b) or mpmath.isnan(x.a) or mpmath.isnan(x.b):
                _unk('non-finite interval')
        except _Unk:
            raise
        except Exception:
            _unk('bad interval')
    return x


def _sign(v):
    """-1, 0, 1 or None."""
    if isinstance(v, Fraction):
        return (v > 0) - (v < 0)
    if isinstance(v, Surd):
        v = _norm(v)
        if isinstance(v, Fraction):
            return (v > 0) - (v < 0)
        if isinstance(v, Surd):
            return _surd_sign(v)
    if _pt_gt0(v.a):
        return 1
    if _pt_lt0(v.b):
        return -1
    if (v.a == 0) is True and (v.b == 0) is True and (v.delta == 0) is True:
        return 0
    return None


def compare(a, b):
    """Three-valued comparison of two values: -1, 0, 1, or None when undecided."""
    if a is None or b is None:
        return None
    iv.dps = DPS
    try:
        if is_exact(a) and is_exact(b):
            return _sign(_sub(a, b))
        x, y = to_interval(a), to_interval(b)
        if (x.b < y.a) is True:
            return -1
        if (x.a > y.b) is True:
            return 1
        return None
    except _Unk:
        return None


# ----------------------------------------------------------------------------- arithmetic on values
def _add(a, b):
    if isinstance(a, Fraction) and isinstance(b, Fraction):
        return a + b
    if is_exact(a) and is_exact(b):
        t = dict(_as_surd(a).t)
        for d, c in _as_surd(b).t.items():
            t[d] = t.get(d, 0) + c
        return _norm(Surd(t))
    return _finite(to_interval(a) + to_interval(b))


def _neg(a):
    if isinstance(a, Fraction):
        return -a
    if isinstance(a, Surd):
        return Surd({d: -c for d, c in a.t.items()})
    return -a


def _sub(a, b):
    return _add(a, _neg(b))


def _mul(a, b):
    if isinstance(a, Fraction) and isinstance(b, Fraction):
        return a * b
    if is_exact(a) and is_exact(b):
        A, B = _as_surd(a).t, _as_surd(b).t
        if len(A) * len(B) <= 4 * MAX_SURD_TERMS:
            t = {}
            for d1, c1 in A.items():
                for d2, c2 in B.items():
                    g = gcd(d1, d2)
                    d = (d1 // g) * (d2 // g)
                    t[d] = t.get(d, 0) + c1 * c2 * g
            return _norm(Surd(t))
    return _finite(to_interval(a) * to_interval(b))


def _inv(a):
    """HOL real_inverse: inverse 0 = 0."""
    if isinstance(a, Fraction):
        return Fraction(0) if a == 0 else 1 / a
    if isinstance(a, Surd):
        a = _norm(a)
        if isinstance(a, Fraction):
            return _inv(a)
        if isinstance(a, Surd) and len(a.t) == 1:
            (d, c), = a.t.items()
            return Surd({d: 1 / (c * d)})
        if isinstance(a, Surd) and len(a.t) == 2:
            # 1 / (p + q) = (p - q) / (p^2 - q^2), p^2 and q^2 rational
            (d1, c1), (d2, c2) = sorted(a.t.items())
            den = c1 * c1 * d1 - c2 * c2 * d2
            if den != 0:
                return _norm(Surd({d1: c1 / den, d2: -c2 / den}))
        a = to_interval(a)
    s = _sign(a)
    if s is None or s == 0:
        if s == 0:
            return Fraction(0)
        _unk('divisor may be zero')
    return _finite(1 / a)


def _div(a, b):
    if isinstance(b, Fraction) and b == 0:
        return Fraction(0)
    return _mul(a, _inv(b))


def _check_nat(v):
    if not isinstance(v, Fraction) or v.denominator != 1 or v < 0:
        _unk('not a natural number value')
    return v


def _check_int(v):
    if not isinstance(v, Fraction) or v.denominator != 1:
        _unk('not an integer value')
    return v


def _pow_nat(x, n):
    """x ^ n, n a natural number (Python int)."""
    if n == 0:
        return Fraction(1)
    if n == 1:
        return x
    if isinstance(x, Fraction):
        if x in (0, 1):
            return x
        if x == -1:
            return Fraction(1 if n % 2 == 0 else -1)
        bits = (x.numerator.bit_length() + x.denominator.bit_length()) * n
        if bits > MAX_BITS:
            _unk('power too large')
        return x ** n
    if n > 4096:
        _unk('power too large')
    if isinstance(x, Surd):
        r = Fraction(1)
        for _ in range(n if n <= 16 else 0):
            r = _mul(r, x)
        if n <= 16:
            return r
        x = to_interval(x)
    return _finite(x ** n)


def _iroot(n, k):
    """Exact integer k-th root of n >= 0, or None."""
    if n < 2:
        return n
    lo, hi = 0, 1 << ((n.bit_length() + k - 1) // k + 1)
    while lo < hi:
        m = (lo + hi) // 2
        p = m ** k
        if p == n:
            return m
        if p < n:
            lo = m + 1
        else:
            hi = m
    return None


def _sqrt(x):
    """HOL sqrt: sgn x * sqrt |x|."""
    if isinstance(x, Surd):
        x = _norm(x)
    if isinstance(x, Fraction):
        if x == 0:
            return x
        sgn = 1 if x > 0 else -1
        a = abs(x)
        n = a.numerator * a.denominator         # sqrt(p/q) = sqrt(p*q)/q
        sp = _squarefree_split(n)
        if sp is not None:
            s, d = sp
            return _norm(Surd({d: Fraction(sgn * s, a.denominator)}))
        return _finite(sgn * iv.sqrt(to_interval(a)))
    s = _sign(x)
    x = to_interval(x)
    if s == 1:
        return _finite(iv.sqrt(x))
    if s == -1:
        return _finite(-iv.sqrt(-x))
    if s == 0:
        return Fraction(0)
    _unk('sign of sqrt argument')


def _exp(x):
    if isinstance(x, Fraction) and x == 0:
        return Fraction(1)
    x = to_interval(x)
    if not ((x.a > -10 ** 7) is True and (x.b < 10 ** 7) is True):
        _unk('exp argument too large')
    return _finite(iv.exp(x))


class _UnkUnspecified(_Unk):
    """The term denotes SOME real number that the library does not pin down (log of a non-positive number)."""


def _log(x):
    if isinstance(x, Fraction) and x == 1:
        return Fraction(0)
    if _sign(x) in (0, -1):
        raise _UnkUnspecified('log of a non-positive number')
    if _sign(x) != 1:
        _unk('log of a non-positive (or not certainly positive) number')
    return _finite(iv.log(to_interval(x)))


def _sin(x):
    if isinstance(x, Fraction) and x == 0:
        return Fraction(0)
    return _finite(iv.sin(to_interval(x)))


def _cos(x):
    if isinstance(x, Fraction) and x == 0:
        return Fraction(1)
    return _finite(iv.cos(to_interval(x)))


def _atn(x):
    if isinstance(x, Fraction) and x == 0:
        return Fraction(0)
    return _finite(iv.atan2(to_interval(x), iv.mpf(1)))


def _abs(x):
    s = _sign(x)
    if s is None:
        x = to_interval(x)
        return _finite(abs(x))
    return x if s >= 0 else _neg(x)


def _rpow_pos(x, y):
    """x ^ y for x certainly > 0."""
    if isinstance(x, Surd):
        x = _norm(x)
    if isinstance(y, Surd):
        y = _norm(y)
    if isinstance(x, Fraction) and x == 1:
        return Fraction(1)
    if isinstance(y, Fraction):
        if y.denominator == 1:
            n = int(y)
            return _pow_nat(x, n) if n >= 0 else _inv(_pow_nat(x, -n))
        if isinstance(x, Fraction) and y.denominator <= 64:
            q, p = y.denominator, y.numerator
            rn, rd = _iroot(x.numerator, q), _iroot(x.denominator, q)
            if rn is not None and rd is not None:
                r = Fraction(rn, rd)
                return _pow_nat(r, p) if p >= 0 else _inv(_pow_nat(r, -p))
            if q == 2:
                r = _sqrt(x)
                if is_exact(r) and abs(p) <= 16:
                    return _pow_nat(r, p) if p >= 0 else _inv(_pow_nat(r, -p))
    e = _mul(y if not isinstance(y, Surd) else to_interval(y), _log(x))
    return _exp(e)


def _rpow(x, y):
    """Library definition of real power (transcendentals.json, `power :: real => real => real`)."""
    sx = _sign(x)
    if sx is None:
        _unk('sign of the base')
    if sx > 0:
        return _rpow_pos(x, y)
    if sx == 0:
        sy = _sign(y)
        if sy is None:
            _unk('exponent may be zero')
        return Fraction(1) if sy == 0 else Fraction(0)
    # negative base
    if isinstance(y, Surd):
        y = _norm(y)
    if not isinstance(y, Fraction):
        _unk('negative base with an exponent not known to be rational')
    r = _rpow_pos(_neg(x), y)
    if y.numerator % 2 == 1 and y.denominator % 2 == 1:
        return _neg(r)
    return r


# ----------------------------------------------------------------------------- term evaluation
_REAL_FUNS = {
    'sqrt': _sqrt, 'exp': _exp, 'log': _log, 'sin': _sin, 'cos': _cos, 'atn': _atn,
    'tan': lambda x: _div(_sin(x), _cos(x)),
    'cot': lambda x: _div(_cos(x), _sin(x)),
    'sec': lambda x: _div(Fraction(1), _cos(x)),
    'csc': lambda x: _div(Fraction(1), _sin(x)),
}
_NUM = ('nat', 'int', 'real')


def _binary_value(t):
    """Value of a bit0/bit1/zero/one chain (iteratively: numerals can be long)."""
    bits = []
    while True:
        if t.is_const():
            if t.name == 'zero':
                v = 0
            elif t.name == 'one':
                v = 1
            else:
                return None
            break
        if t.is_comb() and t.fun.is_const() and t.fun.name in ('bit0', 'bit1'):
            bits.append(1 if t.fun.name == 'bit1' else 0)
            t = t.arg
        else:
            return None
    for b in reversed(bits):
        v = 2 * v + b
    return v


def _ev(t, env):
    if t.is_var():
        T = type_name(t.T)
        if t.name not in env or T not in _NUM:
            _unk('free variable')
        v = Fraction(env[t.name])
        if T == 'nat':
            _check_nat(v)
        elif T == 'int':
            _check_int(v)
        return v
    if t.is_const():
        T = type_name(t.T)
        if t.name == 'zero' and T in _NUM:
            return Fraction(0)
        if t.name == 'one' and T in _NUM:
            return Fraction(1)
        if t.name == 'pi' and T == 'real':
            return +iv.pi
        _unk('constant ' + t.name)
    if not t.is_comb():
        _unk('not first order')
    head = t.head
    if not head.is_const():
        _unk('head is not a constant')
    name, args = head.name, t.args
    argTs, R = _fun_sig(head, len(args))
    n = len(args)

    if name in ('bit0', 'bit1') and n == 1 and argTs == ['nat'] and R == 'nat':
        v = _binary_value(t)
        if v is not None:
            return Fraction(v)
        a = _check_nat(_ev(args[0], env))
        return 2 * a + (1 if name == 'bit1' else 0)
    if name == 'of_nat' and n == 1 and argTs == ['nat'] and R in _NUM:
        return _check_nat(_ev(args[0], env))
    if name == 'of_int' and n == 1 and argTs == ['int'] and R == 'real':
        return _check_int(_ev(args[0], env))
    if name == 'Suc' and n == 1 and argTs == ['nat'] and R == 'nat':
        return _check_nat(_ev(args[0], env)) + 1
    if name == 'Pre' and n == 1 and argTs == ['nat'] and R == 'nat':
        return max(_check_nat(_ev(args[0], env)) - 1, Fraction(0))

    if name in ('plus', 'minus', 'times') and n == 2 and R in _NUM and argTs == [R, R]:
        a, b = _ev(args[0], env), _ev(args[1], env)
        if R == 'nat':
            _check_nat(a), _check_nat(b)
        elif R == 'int':
            _check_int(a), _check_int(b)
        if name == 'plus':
            return _add(a, b)
        if name == 'times':
            return _mul(a, b)
        if R == 'nat':
            return max(a - b, Fraction(0))
        return _sub(a, b)
    if name == 'uminus' and n == 1 and R in ('int', 'real') and argTs == [R]:
        a = _ev(args[0], env)
        if R == 'int':
            _check_int(a)
        return _neg(a)
    if name == 'real_divide' and n == 2 and R == 'real' and argTs == ['real', 'real']:
        b = _ev(args[1], env)
        if isinstance(b, Fraction) and b == 0:
            _ev(args[0], env)           # numerator must still be meaningful
            return Fraction(0)
        return _div(_ev(args[0], env), b)
    if name == 'real_inverse' and n == 1 and R == 'real' and argTs == ['real']:
        return _inv(_ev(args[0], env))
    if name == 'power' and n == 2 and R in _NUM and argTs[0] == R:
        if argTs[1] == 'nat':
            e = int(_check_nat(_ev(args[1], env)))
            b = _ev(args[0], env)
            if R == 'nat':
                _check_nat(b)
            elif R == 'int':
                _check_int(b)
            return _pow_nat(b, e)
        if argTs[1] == 'real' and R == 'real':
            return _rpow(_ev(args[0], env), _ev(args[1], env))
        _unk('power at unsupported types')
    if name == 'abs' and n == 1 and R in _NUM and argTs == [R]:
        a = _ev(args[0], env)
        if R == 'nat':
            return _check_nat(a)
        if R == 'int':
            _check_int(a)
        return _abs(a)
    if name == 'exp' and n == 1 and R == 'real' and argTs == ['real']:
        try:
            a = _ev(args[0], env)
        except _UnkUnspecified:
            # exp of an unspecified real: still a positive real (only comparisons with non-positive values decide)
            return iv.mpf([0, 'inf'])
        return _exp(a)
    if name in _REAL_FUNS and n == 1 and R == 'real' and argTs == ['real']:
        return _REAL_FUNS[name](_ev(args[0], env))
    if name in ('max', 'min') and n == 2 and R in _NUM and argTs == [R, R]:
        a, b = _ev(args[0], env), _ev(args[1], env)
        c = compare(a, b)
        if c is None:
            _unk('max/min undecided')
        if name == 'max':
            return b if c <= 0 else a
        return a if c <= 0 else b
    _unk('unsupported: ' + name)


def eval_num(t, env=None):
    """Value of a numeric term: Fraction (exact), mpmath interval (enclosure), or None (UNKNOWN)."""
    iv.dps = DPS
    try:
        v = _ev(t, env or {})
    except _Unk:
        return None
    except (RecursionError, mpmath.libmp.libmpf.ComplexResult, ZeroDivisionError, OverflowError, ValueError):
        return None
    v = _norm(v) if isinstance(v, Surd) else v
    if isinstance(v, Surd):
        return to_interval(v)
    return v


def _eval_exact_or_iv(t, env):
    """Like eval_num but keeps exact surds (for comparisons)."""
    iv.dps = DPS
    try:
        v = _ev(t, env or {})
    except _Unk:
        return None
    except (RecursionError, mpmath.libmp.libmpf.ComplexResult, ZeroDivisionError, OverflowError, ValueError):
        return None
    return _norm(v) if isinstance(v, Surd) else v


_CMP = {'less': lambda c: c < 0, 'less_eq': lambda c: c <= 0,
        'greater': lambda c: c > 0, 'greater_eq': lambda c: c >= 0}


def _not3(a):
    return None if a is None else (not a)


def eval_prop(t, env=None):
    """Truth value of a proposition built from numeric comparisons and connectives; None = UNKNOWN."""
    env = env or {}
    try:
        if t.is_const():
            if t.name == 'true':
                return True
            if t.name == 'false':
                return False
            return None
        if not t.is_comb():
            return None
        head = t.head
        if not head.is_const():
            return None
        name, args = head.name, t.args
        n = len(args)
        if name == 'neg' and n == 1:
            return _not3(eval_prop(args[0], env))
        if name in ('conj', 'disj', 'implies') and n == 2:
            a = eval_prop(args[0], env)
            if name == 'implies':
                a, name = _not3(a), 'disj'
            b = eval_prop(args[1], env)
            if name == 'conj':
                if a is False or b is False:
                    return False
                return True if (a is True and b is True) else None
            if a is True or b is True:
                return True
            return False if (a is False and b is False) else None
        if name == 'equals' and n == 2:
            argTs, R = _fun_sig(head, 2)
            if R != 'bool' or argTs[0] != argTs[1]:
                return None
            if argTs[0] == 'bool':
                a, b = eval_prop(args[0], env), eval_prop(args[1], env)
                if a is None or b is None:
                    return None
                return a == b
            if argTs[0] in _NUM:
                a = _eval_exact_or_iv(args[0], env)
                if a is None:
                    return None
                b = _eval_exact_or_iv(args[1], env)
                c = compare(a, b)
                return None if c is None else c == 0
            return None
        if name in _CMP and n == 2:
            argTs, R = _fun_sig(head, 2)
            if R != 'bool' or argTs[0] != argTs[1] or argTs[0] not in _NUM:
                return None
            a = _eval_exact_or_iv(args[0], env)
            if a is None:
                return None
            b = _eval_exact_or_iv(args[1], env)
            c = compare(a, b)
            return None if c is None else _CMP[name](c)
        return None
    except _Unk:
        return None
    except RecursionError:
        return None


# ----------------------------------------------------------------------------- free variables, points
def free_vars(t):
    """Sorted list of (name, type name) of the free variables of a first-order term."""
    out = set()
    stack = [t]
    while stack:
        u = stack.pop()
        if u.is_var():
            out.add((u.name, type_name(u.T)))
        elif u.is_comb():
            stack.append(u.fun)
            stack.append(u.arg)
        elif u.is_abs():
            stack.append(u.body)
    return sorted(out, key=lambda p: (p[0], str(p[1])))


class _Lcg:
    """Tiny deterministic generator (no `random`, no clock)."""
    def __init__(self, seed):
        self.s = (seed * 6364136223846793005 + 1442695040888963407) & (2 ** 64 - 1)

    def next(self, n):
        self.s = (self.s * 6364136223846793005 + 1442695040888963407) & (2 ** 64 - 1)
        return (self.s >> 33) % n


def sample_points(variables, n, seed=0, extra=()):
    """n deterministic assignments for `variables` (list of (name, type name)).  The first points use small
    values (so that boundaries of comparisons with small constants are hit), later ones are spread out;
    `extra` is a list of Fractions (e.g. constants occurring in the term) that are mixed in."""
    rng = _Lcg(seed)
    small = [Fraction(k) for k in (0, 1, 2, -1, 3, -2)] + [Fraction(1, 2), Fraction(-1, 2), Fraction(3, 2)]
    extra = [Fraction(e) for e in extra]
    pts = []
    for i in range(n):
        env = {}
        for (nm, T) in variables:
            if i < n // 2:
                pool = small + extra
                v = pool[rng.next(len(pool))]
            else:
                v = Fraction(rng.next(41) - 20, rng.next(7) + 1)
            if T == 'nat':
                v = Fraction(abs(int(v)))
            elif T == 'int':
                v = Fraction(int(v))
            env[nm] = v
        pts.append(env)
    return pts


def refute_at_points(t, points):
    """First env at which proposition t is certainly FALSE: (env, stats); (None, stats) otherwise."""
    stats = {'true': 0, 'unknown': 0}
    for env in points:
        v = eval_prop(t, env)
        if v is False:
            return env, stats
        stats['true' if v else 'unknown'] += 1
    return None, stats


def check_identity(lhs, rhs, points):
    """Evaluate both sides at each point; one certain disagreement refutes the identity."""
    res = {'refuted': None, 'agree': 0, 'unknown': 0}
    for env in points:
        a = _eval_exact_or_iv(lhs, env)
        b = _eval_exact_or_iv(rhs, env) if a is not None else None
        c = compare(a, b)
        if c is None:
            res['unknown'] += 1
        elif c == 0:
            res['agree'] += 1
        else:
            res['refuted'] = env
            return res
    return res


# ----------------------------------------------------------------------------- self-test of the value layer
def self_test():
    """Cheap consistency checks on the value layer (no holpy needed).  Returns a list of failures."""
    bad = []
    iv.dps = DPS
    F = Fraction

    def expect(what, got, want):
        if got != want:
            bad.append('%s: got %r, want %r' % (what, got, want))
    s2 = _sqrt(F(2))
    expect('sqrt2*sqrt2', _mul(s2, s2), F(2))
    expect('sqrt 4', _sqrt(F(4)), F(2))
    expect('sqrt 9/4', _sqrt(F(9, 4)), F(3, 2))
    expect('sqrt -4', _sqrt(F(-4)), F(-2))
    expect('sqrt8 = 2 sqrt2', compare(_sqrt(F(8)), _mul(F(2), s2)), 0)
    expect('1/sqrt2 * sqrt2', _mul(_inv(s2), s2), F(1))
    expect('1/(1+sqrt2) = sqrt2-1', compare(_inv(_add(F(1), s2)), _sub(s2, F(1))), 0)
    expect('sqrt2 < 1.5', compare(s2, F(3, 2)), -1)
    expect('x/0', _div(F(3), F(0)), F(0))
    expect('8^(2/3)', _rpow(F(8), F(2, 3)), F(4))
    expect('(-8)^(1/3)', _rpow(F(-8), F(1, 3)), F(-2))
    expect('(-8)^(2/3)', _rpow(F(-8), F(2, 3)), F(4))
    expect('(-2)^(-3)', _rpow(F(-2), F(-3)), F(-1, 8))
    expect('0^0', _rpow(F(0), F(0)), F(1))
    expect('0^(-1)', _rpow(F(0), F(-1)), F(0))
    expect('2^(1/2) vs float image', compare(_rpow(F(2), F(1, 2)), F(6369051672525773, 4503599627370496)), -1)
    expect('pi < 22/7', compare(+iv.pi, F(22, 7)), -1)
    expect('pi > 3.14159', compare(+iv.pi, F(314159, 100000)), 1)
    expect('exp 1 > 2.718281828459045', compare(_exp(F(1)), F(2718281828459045, 10 ** 15)), 1)
    expect('exp 1 < 2.7182818284590453', compare(_exp(F(1)), F(27182818284590453, 10 ** 16)), -1)
    expect('4 atn 1 ~ pi undecided', compare(_mul(F(4), _atn(F(1))), +iv.pi), None)
    expect('sin 0', _sin(F(0)), F(0))
    expect('log 1', _log(F(1)), F(0))
    try:
        _log(F(0))
        bad.append('log 0 should be unknown')
    except _Unk:
        pass
    try:
        _div(F(1), iv.mpf([-1, 1]))
        bad.append('1/[-1,1] should be unknown')
    except _Unk:
        pass
    # cross-check of the interval layer against mpmath.mp at a higher precision
    old = mpmath.mp.dps
    mpmath.mp.dps = 100
    try:
        for nm, f, g, arg in (('exp', _exp, mpmath.exp, F(7, 3)), ('log', _log, mpmath.log, F(7, 3)),
                              ('sin', _sin, mpmath.sin, F(22, 7)), ('cos', _cos, mpmath.cos, F(-5, 3)),
                              ('atn', _atn, mpmath.atan, F(-9, 4)), ('sqrt', _sqrt, mpmath.sqrt, F(7, 3))):
            lo, hi = endpoints(f(arg))
            ref = g(mpmath.mpf(arg.numerator) / arg.denominator)
            a, b = mpmath.mpf(lo.numerator) / lo.denominator, mpmath.mpf(hi.numerator) / hi.denominator
            eps = mpmath.mpf(10) ** -90
            if not (a - eps <= ref <= b + eps):
                bad.append('%s(%s): interval [%s, %s] does not contain %s' % (nm, arg, a, b, ref))
            if b - a > mpmath.mpf(10) ** -60:
                bad.append('%s(%s): interval too wide' % (nm, arg))
    finally:
        mpmath.mp.dps = old
    return bad
