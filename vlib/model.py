"""Finite standard-model evaluator for HOL terms in vlib.ref's named form.

A model assigns a size in 1..k to every type variable (TVar and STVar are distinct keys); bool = (False, True);
A => B is the full function space, a function being the tuple of its values in the order of dom(A).
Logical constants have their standard meaning; Some/The use ONE fixed admissible choice function (first witness,
else first element), so falsity under this model refutes validity but truth does not prove it.
"""
import itertools

from vlib import ref
from vlib.ref import RefError

MAX_DOMAIN = 300


class Unsupported(Exception):
    """Term cannot be evaluated in a finite standard model (unknown constant, domain too large, ill-typed)."""


class Model:
    def __init__(self, tyassign):
        """tyassign: dict ('tv'|'stv', name) -> size >= 1."""
        self.tyassign = dict(tyassign)
        self._dom = {}
        self._idx = {}

    def dom(self, T):
        d = self._dom.get(T)
        if d is not None:
            return d
        if T[0] in ('tv', 'stv'):
            if T not in self.tyassign:
                raise Unsupported('type variable without a size: %s' % (T,))
            d = tuple(range(self.tyassign[T]))
        elif T == ref.BOOL:
            d = (False, True)
        elif ref.is_fun(T):
            A, B = T[2]
            da, db = self.dom(A), self.dom(B)
            if len(db) ** len(da) > MAX_DOMAIN:
                raise Unsupported('domain too large')
            d = tuple(itertools.product(db, repeat=len(da)))
        else:
            raise Unsupported('type constructor %s has no finite interpretation here' % T[1])
        self._dom[T] = d
        return d

    def idx(self, T):
        m = self._idx.get(T)
        if m is None:
            m = {v: i for i, v in enumerate(self.dom(T))}
            self._idx[T] = m
        return m

    def apply(self, f, A, a):
        return f[self.idx(A)[a]]

    def tabulate(self, A, fn):
        return tuple(fn(a) for a in self.dom(A))

    # -- constants -----------------------------------------------------------------
    def const(self, name, T):
        key = (name, T)
        c = self._dom.get(('const', key))
        if c is not None:
            return c
        v = self._const(name, T)
        self._dom[('const', key)] = v
        return v

    def _const(self, name, T):
        B = ref.BOOL
        tab = self.tabulate
        if name == 'true' and T == B:
            return True
        if name == 'false' and T == B:
            return False
        if name == 'neg' and T == ref.tfun(B, B):
            return tab(B, lambda a: not a)
        if name in ('conj', 'disj', 'implies') and T == ref.tfun(B, ref.tfun(B, B)):
            op = {'conj': lambda a, b: a and b, 'disj': lambda a, b: a or b, 'implies': lambda a, b: (not a) or b}[name]
            return tab(B, lambda a: tab(B, lambda b: op(a, b)))
        if name == 'equals' and ref.is_fun(T) and ref.is_fun(T[2][1]) and T[2][0] == T[2][1][2][0] and T[2][1][2][1] == B:
            A = T[2][0]
            return tab(A, lambda a: tab(A, lambda b: a == b))
        if name in ('all', 'exists', 'exists1', 'Some', 'The') and ref.is_fun(T) and ref.is_fun(T[2][0]) \
                and T[2][0][2][1] == B:
            A = T[2][0][2][0]
            P_T = T[2][0]
            res_T = T[2][1]
            dA = self.dom(A)
            if name in ('all', 'exists', 'exists1') and res_T == B:
                if name == 'all':
                    return tab(P_T, lambda p: all(p))
                if name == 'exists':
                    return tab(P_T, lambda p: any(p))
                return tab(P_T, lambda p: sum(1 for x in p if x) == 1)
            if name in ('Some', 'The') and res_T == A:
                def choose(p):
                    for x, ok in zip(dA, p):
                        if ok:
                            return x
                    return dA[0]
                return tab(P_T, choose)
        if name == 'IF' and ref.is_fun(T) and T[2][0] == B:
            rest = T[2][1]
            if ref.is_fun(rest) and ref.is_fun(rest[2][1]) and rest[2][0] == rest[2][1][2][0] == rest[2][1][2][1]:
                A = rest[2][0]
                return tab(B, lambda c: tab(A, lambda x: tab(A, lambda y: x if c else y)))
        if name == '_VAR' and ref.is_fun(T) and T[2][1] == B:
            return tab(T[2][0], lambda a: True)
        raise Unsupported('constant %s :: %s' % (name, ref.show_type(T)))

    # -- evaluation ----------------------------------------------------------------
    def eval(self, t, env):
        """env: dict atom -> value, atoms being ('var', n, T), ('svar', n, T), ('bv', uid, T)."""
        tag = t[0]
        if tag in ('var', 'svar', 'bv'):
            try:
                return env[t]
            except KeyError:
                raise Unsupported('unassigned variable %s' % (t,))
        if tag == 'const':
            return self.const(t[1], t[2])
        if tag == 'app':
            f, a = t[1], t[2]
            # fast paths for fully applied logical constants (avoid tabulating big function spaces)
            if f[0] == 'app' and f[1][0] == 'const':
                nm = f[1][1]
                if nm == 'equals':
                    return self.eval(f[2], env) == self.eval(a, env)
                if nm == 'implies':
                    return (not self.eval(f[2], env)) or self.eval(a, env)
                if nm == 'conj':
                    return self.eval(f[2], env) and self.eval(a, env)
                if nm == 'disj':
                    return self.eval(f[2], env) or self.eval(a, env)
            if f[0] == 'const' and f[1] in ('all', 'exists') and a[0] == 'lam':
                me = ('bv', a[1], a[2])
                env2 = dict(env)
                vals = []
                for x in self.dom(a[2]):
                    env2[me] = x
                    v = self.eval(a[3], env2)
                    if f[1] == 'all' and not v:
                        return False
                    if f[1] == 'exists' and v:
                        return True
                return f[1] == 'all'
            fv = self.eval(f, env)
            av = self.eval(a, env)
            try:
                A = ref.typeof(a)
            except RefError as e:
                raise Unsupported('ill-typed: %s' % e)
            try:
                return fv[self.idx(A)[av]]
            except (KeyError, TypeError, IndexError):
                raise Unsupported('ill-typed application')
        if tag == 'lam':
            me = ('bv', t[1], t[2])
            env2 = dict(env)
            out = []
            for x in self.dom(t[2]):
                env2[me] = x
                out.append(self.eval(t[3], env2))
            return tuple(out)
        raise Unsupported('open term')


def sequent_atoms(hyps, prop):
    fv, tv = set(), set()
    for t in list(hyps) + [prop]:
        ref.free_vars(t, fv)
        ref.all_type_vars(t, tv)
    return sorted(fv), sorted(tv)


def refute(hyps, prop, k=2, max_assign=20000, rng=None, sample=2000):
    """Search for a finite standard model + assignment with all hyps true and prop false.

    Returns ('refuted', info) | ('held', n_models_fully_checked) | ('unknown', reason).
    'held' means: true in every model/assignment examined (not a proof)."""
    fv, tv = sequent_atoms(hyps, prop)
    if any(v[0] == 'bv' for v in fv):
        return 'unknown', 'out-of-scope bound variable'
    models = 0
    unknown = None
    for sizes in itertools.product(range(1, k + 1), repeat=len(tv)):
        M = Model(dict(zip(tv, sizes)))
        try:
            doms = [M.dom(v[2]) for v in fv]
        except Unsupported as e:
            unknown = str(e)
            continue
        total = 1
        for d in doms:
            total *= len(d)
        if total <= max_assign:
            assigns = itertools.product(*doms)
        elif rng is not None:
            assigns = (tuple(rng.choice(d) for d in doms) for _ in range(sample))
        else:
            unknown = 'too many assignments'
            continue
        try:
            for vals in assigns:
                env = dict(zip(fv, vals))
                if all(M.eval(h, env) for h in hyps) and not M.eval(prop, env):
                    return 'refuted', {'type_sizes': {ref.show_type(t): s for t, s in zip(tv, sizes)},
                                       'assignment': {ref.show(v) + '::' + ref.show_type(v[2]): repr(x)
                                                      for v, x in zip(fv, vals)}}
            models += 1
        except Unsupported as e:
            unknown = str(e)
            continue
    if models == 0:
        return 'unknown', unknown or 'no model evaluated'
    return 'held', models


def denote(t, M, env):
    return M.eval(t, env)
