"""Shared machinery for C13 (proof editing) and C14 (suggestions): corpus of recorded library proofs, state
construction, structural invariants, fingerprints, parameter supply."""
import copy
import json

from vlib import ref
from vlib.harness import CaseInvalid

QUICK_THEORIES = ['logic', 'nat', 'function', 'set', 'list', 'gcd', 'iterate', 'lcm']
THOROUGH_THEORIES = QUICK_THEORIES + ['prime', 'sums', 'products', 'real', 'realset', 'metric', 'misc', 'card', 'floor',
                                       'int', 'hoare', 'expr']

_corpus = {}


def load_corpus(theories):
    """theory -> sorted list of theorem names that carry recorded steps."""
    from logic import basic
    from prover import z3wrapper  # noqa: registers the z3 method/macro used by recorded steps
    out = {}
    for th in theories:
        if th in _corpus:
            out[th] = _corpus[th]
            continue
        try:
            basic.load_theory(th)
        except Exception:
            continue
        items = basic.theory_cache['master'][th]['content']
        names = [it.name for it in items if it.ty == 'thm' and it.error is None and getattr(it, 'steps', None)]
        _corpus[th] = names
        out[th] = names
    return out


def get_item(theory_name, thm):
    from logic import basic
    for it in basic.theory_cache['master'][theory_name]['content']:
        if it.ty == 'thm' and it.name == thm:
            return it
    raise CaseInvalid('no such theorem %s.%s' % (theory_name, thm))


def init_state(theory_name, thm):
    """Load the theory up to the theorem, set the context, build the initial proof state."""
    from logic import basic, context
    from server import server
    if theory_name == '#goal':
        return init_state_goal(int(thm))
    if theory_name not in _corpus:
        load_corpus([theory_name])
    it = get_item(theory_name, thm)
    basic.load_theory(theory_name, limit=('thm', thm))
    context.set_context(None, vars=it.vars)
    state = server.parse_init_state(it.prop)
    return it, state


class GoalItem:
    """Stand-in for a library theorem item: a generated goal with no recorded steps."""
    def __init__(self, vars, prop):
        self.vars = vars
        self.prop = prop
        self.steps = []


GOALS = [
    ({'A': 'bool', 'B': 'bool'}, '((A --> A) --> B) --> B'),
    ({'A': 'bool', 'B': 'bool'}, '(A --> A) & B --> B & (A --> A)'),
    ({'A': 'bool', 'B': 'bool', 'C': 'bool'}, '(A --> B) --> (B --> C) --> A --> C'),
    ({'A': 'bool', 'B': 'bool'}, 'A & B --> B & A'),
    ({'A': 'bool', 'B': 'bool'}, 'A | B --> B | A'),
    ({'A': 'bool', 'B': 'bool', 'C': 'bool'}, '(A | B) & C --> (A & C) | (B & C)'),
    ({'A': 'bool'}, '~~A --> A'),
    ({'P': "'a => bool", 'Q': "'a => bool"}, '(!x. P x --> Q x) --> (!x. P x) --> (!x. Q x)'),
    ({'P': "'a => bool", 'Q': "'a => bool"}, '(?x. P x & Q x) --> (?x. P x) & (?x. Q x)'),
    ({'P': "'a => bool", 'A': 'bool'}, '(!x::\'a. A) --> A'),
    ({'P': "'a => bool", 'C': 'bool'}, '(?x. P x) --> (!x. P x --> C) --> C'),
    ({'P': "'a => 'a => bool"}, '(?x. !y. P x y) --> (!y. ?x. P x y)'),
    ({'A': 'bool', 'B': 'bool'}, '(A --> B) --> (~B --> ~A)'),
    ({'A': 'bool', 'B': 'bool'}, 'A --> A --> B --> A & B'),
    ({'P': "'a => bool", 'A': 'bool', 'B': 'bool', 'C': 'bool'}, '(?x. P x) --> (A --> C) & (B --> C)'),
    ({'P': "'a => bool", 'Q': "'a => bool"}, '(?x. P x) & (?y. Q y) --> (?x. ?y. P x & Q y)'),
    ({'P': "'a => bool", 'Q': "'a => bool"}, '(!x. P x) & (!x. Q x) --> (!x. P x & Q x)'),
    ({'P': "'a => bool", 'A': 'bool'}, '(?x. P x --> A) --> (!x. P x) --> A'),
    ({'A': 'bool', 'B': 'bool', 'C': 'bool'}, 'A & B --> C --> B'),
    ({'A': 'bool', 'B': 'bool', 'C': 'bool'}, 'A & B --> (C --> A) & (C --> B)'),
    ({'A': 'bool', 'B': 'bool', 'C': 'bool', 'D': 'bool'}, 'B & A --> (C --> B) --> D --> B'),
]


def init_state_goal(k):
    """Initial state for the k-th generated goal, in theory logic."""
    from logic import basic, context
    from server import server
    from syntax import parser
    vars, text = GOALS[k % len(GOALS)]
    basic.load_theory('logic')
    context.set_context(None, vars=vars)
    prop = parser.parse_term(text)
    item = GoalItem(dict((nm, T) for nm, T in context.ctxt.vars.items()), prop)
    state = server.parse_init_state(prop)
    return item, state


# ------------------------------------------------------------------ structure
def thm_key(th):
    return (ref.canon(ref.from_term(th.prop)), frozenset(ref.canon(ref.from_term(h)) for h in th.hyps))


def walk_items(prf, prefix=()):
    for i, item in enumerate(prf.items):
        pos = prefix + (i,)
        yield pos, item
        if item.subproof:
            yield from walk_items(item.subproof, pos)


def visible(p, q):
    l = len(q)
    return l <= len(p) and q[:l - 1] == p[:l - 1] and q[l - 1] < p[l - 1]


def structure_problems(state):
    """ids equal positions at every depth; every citation names an earlier visible line."""
    probs = []
    positions = {}
    for pos, item in walk_items(state.prf):
        positions[pos] = item
    for pos, item in positions.items():
        if tuple(item.id.id) != pos:
            probs.append(('id-ne-position', 'item at %s carries id %s' % (pos, item.id)))
        if item.rule == '':
            continue
        for p in item.prevs:
            q = tuple(p.id)
            if q not in positions:
                probs.append(('citation-dangling', '%s cites %s' % (pos, q)))
            elif not visible(pos, q):
                probs.append(('citation-not-earlier-visible', '%s cites %s' % (pos, q)))
    return probs


def sorry_items(state):
    return [(pos, item) for pos, item in walk_items(state.prf) if item.rule == 'sorry']


def fingerprint(state):
    from syntax.settings import global_setting
    lines = []
    for pos, item in walk_items(state.prf):
        lines.append((pos, tuple(item.id.id), item.rule, tuple(tuple(p.id) for p in item.prevs),
                      repr(thm_key(item.th)) if item.th is not None else None,
                      item.print_str_args() if item.rule != 'sorry' else ''))
    return json.dumps([sorted((v.name, str(v.T)) for v in state.vars), lines], default=str)


def visible_facts(state, gap_pos):
    """Lines (positions) visible from the gap that carry a statement."""
    out = []
    for pos, item in walk_items(state.prf):
        if visible(gap_pos, pos) and item.th is not None and item.rule not in ('', 'variable'):
            out.append(pos)
    return out


def id_str(pos):
    return '.'.join(str(i) for i in pos)


# ------------------------------------------------------------------ parameters
def fresh_name(state, gap_id, base='v', avoid=()):
    used = set(state.get_vars(gap_id)) | set(avoid)
    # also the names introduced by later lines (they come into the scope of a variable introduced at the gap)
    for _, it in walk_items(state.prf):
        if it.rule == 'variable' and it.args:
            used.add(it.args[0])
    k = 0
    while True:
        cand = '%s%d' % (base, k) if k else base
        if cand not in used:
            return cand
        k += 1


def term_string_of_type(state, gap_id, T, variant=0):
    """A term (as text) of HOL type T over the variables visible at gap_id; None if we cannot supply one."""
    vs = state.get_vars(gap_id)
    cands = sorted(nm for nm, vT in vs.items() if vT == T)
    name = T.name if T.is_tconst() else None
    lits = []
    if name in ('nat', 'int', 'real'):
        # numerals need the constants they abbreviate (theorems early in theory nat precede bit0 / of_nat)
        from kernel import theory
        have = lambda c: theory.thy.has_term_sig(c)
        lits = ['(0::%s)' % name] if have('zero') else []
        if have('one'):
            lits.append('(1::%s)' % name)
        if have('one') and have('bit0') and have('of_nat'):
            lits.append('(2::%s)' % name)
    elif name == 'bool':
        lits = ['true', 'false']
    pool = cands + lits
    if not pool:
        return None
    return pool[variant % len(pool)]
